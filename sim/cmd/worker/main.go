// worker executes simulated runs for one property: a range of run indexes in
// search mode, one replay, or a shrink loop.  It is driven by /verif/check.
package main

import (
	"runtime/pprof"
	"strings"
	"encoding/json"
	"flag"
	"fmt"
	"math/rand"
	"os"
	"runtime"
	"sort"
	"time"

	"detsim"
	"kcsim/scen"
)

type Replay struct {
	Property    string          `json:"property"`
	Class       string          `json:"class"`
	Detail      string          `json:"detail"`
	Seed        int64           `json:"seed"`
	Run         int             `json:"run"`
	RunSeed     int64           `json:"run_seed"`
	Fingerprint string          `json:"code_fingerprint"`
	Scenario    json.RawMessage `json:"scenario"`
	Tape        []int           `json:"tape"`
	TraceHash   uint64          `json:"trace_hash"`
	Steps       int             `json:"steps"`
	SimTime     string          `json:"sim_time"`
	Shrunk      bool            `json:"shrunk"`
	ShrinkStats string          `json:"shrink_stats,omitempty"`
	Trace       []string        `json:"trace,omitempty"`
}

type Stats struct {
	Property   string         `json:"property"`
	From, To   int            `json:"-"`
	Runs       int            `json:"runs"`
	Violations []string       `json:"violations"`
	Infra      []string       `json:"infra"`
	Steps      int64          `json:"steps"`
	SimNanos   int64          `json:"sim_nanos"` // (kept for old readers; saturates)
	SimSecs    float64        `json:"sim_secs"`
	Decisions  int64          `json:"decisions"`
	Contended  int64          `json:"contended"`
	TimerFires int64          `json:"timer_fires"`
	Stalls     int64          `json:"stalls"`
	MaxG       int            `json:"max_goroutines"`
	MaxSteps   int            `json:"max_steps_in_a_run"`
	Counters   map[string]int `json:"counters"`
	CaseHits   map[string]int `json:"case_hits"`
	Sched      []uint64       `json:"sched_hashes"`
	Nontrivial []uint64       `json:"nontrivial_hashes"`
	Strategies map[string]int `json:"strategies"`
	Samples    []Sample       `json:"samples"`
	WallS      float64        `json:"wall_s"`
	Classes    map[string]int `json:"violation_classes"`
}

type Sample struct {
	Run       int             `json:"run"`
	Describe  string          `json:"describe"`
	Scenario  json.RawMessage `json:"scenario"`
	Steps     int             `json:"steps"`
	SimTime   string          `json:"sim_time"`
	TraceHead []string        `json:"trace_head"`
}

var scenDecode = scen.Decode

func runSeed(seed int64, idx int) int64 {
	x := uint64(seed)*0x9E3779B97F4A7C15 + uint64(idx)*0xBF58476D1CE4E5B9 + 0x94D049BB133111EB
	x ^= x >> 31
	x *= 0xD6E8FEB86659FD93
	x ^= x >> 29
	return int64(x & 0x7fffffffffffffff)
}

func simConfig(sc scen.SimCfg) detsim.Config {
	return detsim.Config{Strategy: sc.Strategy, NewTimers: sc.NewTimers, PermuteMaps: sc.PermuteMaps, MaxSteps: sc.MaxSteps, EstSteps: sc.EstSteps}
}

// execute runs a decoded scenario. tape == nil: search mode.
func execute(prop string, sc interface{}, rs int64, tape []int, replay bool, trace bool) *detsim.Result {
	fam := scen.Registry[prop]
	cfg := simConfig(fam.Sim(sc))
	cfg.Seed = rs
	cfg.Trace = trace
	if replay {
		cfg.Replay = true
		cfg.Tape = tape
	}
	res := detsim.Run(cfg, func() { fam.Run(sc) })
	if fam.Post != nil && res.Violation == nil && res.Infra == "" {
		if class, detail := fam.Post(sc); class != "" {
			res.Violation = &detsim.Violation{Class: class, Detail: detail}
		}
	}
	return res
}

func decodeFresh(prop string, raw json.RawMessage) interface{} {
	sc, err := scen.Decode(prop, raw)
	if err != nil {
		fmt.Fprintf(os.Stderr, "worker: INFRA cannot decode scenario: %v\n", err)
		os.Exit(2)
	}
	return sc
}

func main() {
	prop := flag.String("prop", "", "property id")
	tier := flag.String("tier", "quick", "quick|thorough")
	seed := flag.Int64("seed", 1, "VERIF_SEED")
	from := flag.Int("from", 0, "first run index")
	to := flag.Int("to", 0, "last run index (exclusive)")
	stride := flag.Int("stride", 1, "run index stride")
	out := flag.String("out", "", "stats output file")
	failDir := flag.String("faildir", "", "directory for failure files")
	maxFail := flag.Int("maxfail", 3, "stop after this many violations")
	budget := flag.Float64("budget", 0, "wall-clock budget in seconds (0 = none)")
	replayFile := flag.String("replay", "", "replay file")
	shrinkFile := flag.String("shrink", "", "failure file to shrink")
	shrinkBudget := flag.Float64("shrink-budget", 30, "shrink budget in seconds")
	fp := flag.String("fingerprint", "", "code fingerprint to record")
	trace := flag.Bool("trace", false, "print the trace on replay")
	hashes := flag.String("hashes", "", "write 'run tracehash steps class' per run to this file (determinism self-test)")
	gmp := flag.Int("gomaxprocs", 1, "GOMAXPROCS of the worker")
	cpuprof := flag.String("cpuprofile", "", "write a CPU profile (development aid)")
	flag.Parse()
	runtime.GOMAXPROCS(*gmp)
	if *cpuprof != "" {
		f, _ := os.Create(*cpuprof)
		pprof.StartCPUProfile(f)
		defer pprof.StopCPUProfile()
	}
	detsim.PanicFramePrefixes = []string{"github.com/boz/kcache.", "github.com/boz/go-lifecycle.", "github.com/boz/kcache/join.", "github.com/boz/kcache/types/"}

	switch {
	case *replayFile != "":
		os.Exit(doReplay(*replayFile, *trace, *out))
	case *shrinkFile != "":
		os.Exit(doShrink(*shrinkFile, *shrinkBudget, *out))
	}

	fam := scen.Registry[*prop]
	if fam == nil {
		fmt.Fprintf(os.Stderr, "worker: INFRA unknown property %q\n", *prop)
		os.Exit(2)
	}
	st := &Stats{Property: *prop, Counters: map[string]int{}, CaseHits: map[string]int{}, Strategies: map[string]int{}, Classes: map[string]int{}}
	sched := map[uint64]bool{}
	nontriv := map[uint64]bool{}
	start := time.Now()
	var hashLines []string
	for k := *from; k < *to; k += *stride {
		if *budget > 0 && time.Since(start).Seconds() > *budget {
			break
		}
		// the workers' positions rotate from block to block, so that profiles
		// chosen by "index mod m" are spread over all workers (load, and the
		// per-worker cap on reported violations)
		idx := k
		if block := k / *stride; *stride > 1 && (block+1)**stride <= *to {
			idx = block**stride + (k%*stride+block)%*stride
		}
		rs := runSeed(*seed, idx)
		rng := rand.New(rand.NewSource(rs))
		scen.GenIdx = idx
		sc := fam.Gen(scen.GenCtx{Rng: rng, Prop: *prop, Tier: *tier, Idx: idx, Seed: *seed})
		raw, err := json.Marshal(sc)
		if err != nil {
			fmt.Fprintf(os.Stderr, "worker: INFRA marshal scenario: %v\n", err)
			os.Exit(2)
		}
		// run on a freshly decoded copy so that the run sees exactly what a replay will see
		sc = decodeFresh(*prop, raw)
		wantTrace := len(st.Samples) < 2
		res := execute(*prop, sc, rs, nil, false, wantTrace)
		st.Runs++
		if *hashes != "" {
			cl := "-"
			if res.Violation != nil {
				cl = res.Violation.Class
			}
			hashLines = append(hashLines, fmt.Sprintf("%d %d %d %d %s", idx, res.TraceHash, res.Steps, int64(res.Now), cl))
		}
		st.Steps += int64(res.Steps)
		st.SimSecs += float64(res.Now) / 1e9 // (runs with periods of years: the sum does not fit int64 nanoseconds)
		if st.SimNanos+int64(res.Now) > st.SimNanos {
			st.SimNanos += int64(res.Now)
		}
		st.Decisions += int64(len(res.Tape))
		st.Contended += int64(res.Contended)
		st.TimerFires += int64(res.TimerFires)
		st.Stalls += int64(res.Stalls)
		if res.MaxG > st.MaxG {
			st.MaxG = res.MaxG
		}
		if res.Steps > st.MaxSteps {
			st.MaxSteps = res.Steps
		}
		for k, v := range res.Counters {
			st.Counters[k] += v
		}
		for k, v := range res.CaseHits {
			st.CaseHits[fmt.Sprintf("%s#%d", k.Site, k.Case)] += v
		}
		st.Strategies[fam.Sim(sc).Strategy.Kind]++
		sched[res.SchedHash] = true
		if fam.Nontrivial(sc, res) {
			nontriv[res.SchedHash] = true
		}
		if wantTrace && res.Violation == nil {
			head := res.Trace
			if len(head) > 40 {
				head = head[:40]
			}
			st.Samples = append(st.Samples, Sample{Run: idx, Describe: fam.Describe(sc), Scenario: raw, Steps: res.Steps, SimTime: res.Now.String(), TraceHead: head})
		}
		if res.Infra != "" {
			st.Infra = append(st.Infra, fmt.Sprintf("run %d: %s", idx, res.Infra))
			break
		}
		if res.Violation != nil {
			st.Classes[res.Violation.Class]++
			if *failDir != "" && len(st.Violations) < *maxFail {
				rp := Replay{Property: *prop, Class: res.Violation.Class, Detail: res.Violation.Detail, Seed: *seed, Run: idx, RunSeed: rs,
					Fingerprint: *fp, Scenario: raw, Tape: res.Tape, TraceHash: res.TraceHash, Steps: res.Steps, SimTime: res.Now.String()}
				name := fmt.Sprintf("%s/fail-%s-%d.json", *failDir, *prop, idx)
				writeJSON(name, rp)
				st.Violations = append(st.Violations, name)
			}
			if len(st.Violations) >= *maxFail {
				break
			}
		}
	}
	if *hashes != "" {
		os.WriteFile(*hashes, []byte(strings.Join(hashLines, "\n")+"\n"), 0644)
	}
	st.WallS = time.Since(start).Seconds()
	for h := range sched {
		st.Sched = append(st.Sched, h)
	}
	for h := range nontriv {
		st.Nontrivial = append(st.Nontrivial, h)
	}
	sort.Slice(st.Sched, func(i, j int) bool { return st.Sched[i] < st.Sched[j] })
	sort.Slice(st.Nontrivial, func(i, j int) bool { return st.Nontrivial[i] < st.Nontrivial[j] })
	if *out != "" {
		writeJSON(*out, st)
	}
	if len(st.Infra) > 0 {
		fmt.Fprintf(os.Stderr, "worker: INFRA %s\n", st.Infra[0])
		os.Exit(2)
	}
}

func writeJSON(name string, v interface{}) {
	b, err := json.MarshalIndent(v, "", " ")
	if err != nil {
		fmt.Fprintf(os.Stderr, "worker: INFRA marshal: %v\n", err)
		os.Exit(2)
	}
	if err := os.WriteFile(name, b, 0644); err != nil {
		fmt.Fprintf(os.Stderr, "worker: INFRA write %s: %v\n", name, err)
		os.Exit(2)
	}
}

func readReplay(name string) *Replay {
	b, err := os.ReadFile(name)
	if err != nil {
		fmt.Fprintf(os.Stderr, "worker: INFRA read %s: %v\n", name, err)
		os.Exit(2)
	}
	var rp Replay
	if err := json.Unmarshal(b, &rp); err != nil {
		fmt.Fprintf(os.Stderr, "worker: INFRA parse %s: %v\n", name, err)
		os.Exit(2)
	}
	if scen.Registry[rp.Property] == nil {
		fmt.Fprintf(os.Stderr, "worker: INFRA unknown property %q in %s\n", rp.Property, name)
		os.Exit(2)
	}
	return &rp
}

// doReplay: exit 0 = no violation, 1 = violation (class printed), 3 = violation
// of a different class than recorded, 4 = same class but trace hash differs.
func doReplay(file string, trace bool, out string) int {
	rp := readReplay(file)
	sc := decodeFresh(rp.Property, rp.Scenario)
	res := execute(rp.Property, sc, rp.RunSeed, rp.Tape, true, true)
	if res.Infra != "" {
		fmt.Fprintf(os.Stderr, "worker: INFRA %s\n", res.Infra)
		return 2
	}
	if trace {
		for _, l := range res.Trace {
			fmt.Println(l)
		}
	}
	if out != "" {
		cp := *rp
		cp.Trace = res.Trace
		cp.TraceHash = res.TraceHash
		cp.Steps = res.Steps
		cp.SimTime = res.Now.String()
		if res.Violation != nil {
			cp.Class, cp.Detail = res.Violation.Class, res.Violation.Detail
		}
		writeJSON(out, cp)
	}
	if res.Violation == nil {
		fmt.Printf("REPLAY ok: no violation (steps=%d hash=%d)\n", res.Steps, res.TraceHash)
		return 0
	}
	fmt.Printf("REPLAY violation class=%s steps=%d hash=%d\n%s\n", res.Violation.Class, res.Steps, res.TraceHash, res.Violation.Detail)
	if res.Violation.Class != rp.Class {
		return 3
	}
	if rp.TraceHash != 0 && res.TraceHash != rp.TraceHash {
		return 4
	}
	return 1
}
