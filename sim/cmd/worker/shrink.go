package main

import (
	"encoding/json"
	"fmt"
	"os"
	"sort"
	"time"
)

// shrinker minimises a failing (scenario, tape) pair while the same violation
// class persists: structural reduction of the scenario JSON (drop array
// elements, drop object keys, lower numbers, empty strings) and reduction of
// the tape (truncate, reset chunks to the default policy, lower values).
type shrinker struct {
	rp       *Replay
	root     interface{}
	tape     []int
	class    string
	deadline time.Time
	tests    int
	accepted int
}

func (sh *shrinker) expired() bool { return time.Now().After(sh.deadline) }

func (sh *shrinker) test() bool {
	if sh.expired() {
		return false
	}
	sh.tests++
	t0 := time.Now()
	defer func() {
		// candidates that take seconds each (runs into a step limit, huge states):
		// stop minimising soon rather than blow the caller's time limit
		if d := time.Since(t0); d > 3*time.Second {
			if nd := time.Now().Add(3 * d); nd.Before(sh.deadline) {
				sh.deadline = nd
			}
		}
	}()
	raw, err := json.Marshal(sh.root)
	if err != nil {
		return false
	}
	sc, err := decodeQuiet(sh.rp.Property, raw)
	if err != nil {
		return false
	}
	res := execute(sh.rp.Property, sc, sh.rp.RunSeed, sh.tape, true, false)
	ok := res.Infra == "" && res.Violation != nil && res.Violation.Class == sh.class
	if ok {
		sh.accepted++
	}
	return ok
}

func decodeQuiet(prop string, raw json.RawMessage) (sc interface{}, err error) {
	defer func() {
		if r := recover(); r != nil {
			err = fmt.Errorf("decode panic: %v", r)
		}
	}()
	return scenDecode(prop, raw)
}

func (sh *shrinker) pass(get func() interface{}, set func(interface{})) bool {
	progress := false
	switch v := get().(type) {
	case []interface{}:
		for size := (len(v) + 1) / 2; size >= 1; size /= 2 {
			for start := 0; start+size <= len(v); {
				if sh.expired() {
					return progress
				}
				cand := make([]interface{}, 0, len(v)-size)
				cand = append(cand, v[:start]...)
				cand = append(cand, v[start+size:]...)
				set(cand)
				if sh.test() {
					v = cand
					progress = true
				} else {
					set(v)
					start += size
				}
			}
			if size == 1 {
				break
			}
		}
		for i := range v {
			i := i
			if sh.pass(func() interface{} { return v[i] }, func(x interface{}) { v[i] = x }) {
				progress = true
			}
		}
	case map[string]interface{}:
		keys := make([]string, 0, len(v))
		for k := range v {
			keys = append(keys, k)
		}
		sort.Strings(keys)
		for _, k := range keys {
			if sh.expired() {
				return progress
			}
			if k == "prop" || k == "max_steps" {
				continue
			}
			old := v[k]
			if isZero(old) {
				continue
			}
			delete(v, k)
			if sh.test() {
				progress = true
				continue
			}
			v[k] = old
			k := k
			if sh.pass(func() interface{} { return v[k] }, func(x interface{}) { v[k] = x }) {
				progress = true
			}
		}
	case float64:
		if v != 0 {
			for _, c := range []float64{0, float64(int64(v / 2)), v - 1} {
				if c == v || c < 0 {
					continue
				}
				set(c)
				if sh.test() {
					return true
				}
				set(v)
			}
		}
	case string:
		if v != "" {
			set("")
			if sh.test() {
				return true
			}
			set(v)
		}
	case bool:
		if v {
			set(false)
			if sh.test() {
				return true
			}
			set(v)
		}
	}
	return progress
}

func isZero(x interface{}) bool {
	switch v := x.(type) {
	case nil:
		return true
	case float64:
		return v == 0
	case string:
		return v == ""
	case bool:
		return !v
	case []interface{}:
		return len(v) == 0
	case map[string]interface{}:
		return len(v) == 0
	}
	return false
}

func (sh *shrinker) shrinkTape() bool {
	progress := false
	// truncate: binary search for a short prefix that still fails
	lo, hi := 0, len(sh.tape)
	full := sh.tape
	for lo < hi && !sh.expired() {
		mid := (lo + hi) / 2
		sh.tape = full[:mid]
		if sh.test() {
			hi = mid
		} else {
			lo = mid + 1
		}
	}
	sh.tape = full[:hi]
	if hi < len(full) {
		progress = true
	}
	if !sh.test() { // binary search is a heuristic (not monotone): fall back
		sh.tape = full
	}
	// reset chunks to the default policy (-1)
	for size := (len(sh.tape) + 1) / 2; size >= 1; size /= 2 {
		for start := 0; start+size <= len(sh.tape); start += size {
			if sh.expired() {
				return progress
			}
			allDef := true
			for _, x := range sh.tape[start : start+size] {
				if x != -1 {
					allDef = false
				}
			}
			if allDef {
				continue
			}
			saved := append([]int(nil), sh.tape[start:start+size]...)
			cand := append([]int(nil), sh.tape...)
			for i := start; i < start+size; i++ {
				cand[i] = -1
			}
			old := sh.tape
			sh.tape = cand
			if sh.test() {
				progress = true
			} else {
				sh.tape = old
				_ = saved
			}
		}
		if size == 1 {
			break
		}
	}
	// drop trailing defaults
	for len(sh.tape) > 0 && sh.tape[len(sh.tape)-1] == -1 {
		sh.tape = sh.tape[:len(sh.tape)-1]
	}
	return progress
}

func doShrink(file string, budget float64, out string) int {
	rp := readReplay(file)
	sh := &shrinker{rp: rp, tape: rp.Tape, class: rp.Class, deadline: time.Now().Add(time.Duration(budget * float64(time.Second)))}
	if err := json.Unmarshal(rp.Scenario, &sh.root); err != nil {
		fmt.Fprintf(os.Stderr, "worker: INFRA scenario is not JSON: %v\n", err)
		return 2
	}
	// 1. the failure must reproduce from (scenario, tape) in this fresh process
	sc := decodeFresh(rp.Property, rp.Scenario)
	res := execute(rp.Property, sc, rp.RunSeed, rp.Tape, true, false)
	if res.Infra != "" {
		fmt.Fprintf(os.Stderr, "worker: INFRA %s\n", res.Infra)
		return 2
	}
	if res.Violation == nil || res.Violation.Class != rp.Class || res.TraceHash != rp.TraceHash {
		got := "no violation"
		if res.Violation != nil {
			got = res.Violation.Class
		}
		fmt.Fprintf(os.Stderr, "worker: INFRA failure does not reproduce bit-for-bit from its tape (recorded %s hash %d, replay %s hash %d): simulator nondeterminism\n",
			rp.Class, rp.TraceHash, got, res.TraceHash)
		return 2
	}
	origActs := len(rp.Scenario)
	origTape := len(rp.Tape)
	for round := 0; round < 6 && !sh.expired(); round++ {
		p1 := sh.pass(func() interface{} { return sh.root }, func(x interface{}) { sh.root = x })
		p2 := sh.shrinkTape()
		if !p1 && !p2 {
			break
		}
	}
	// final run with trace, in a consistent state
	sh.deadline = time.Now().Add(time.Hour)
	raw, _ := json.Marshal(sh.root)
	sc = decodeFresh(rp.Property, raw)
	res = execute(rp.Property, sc, rp.RunSeed, sh.tape, true, true)
	if res.Violation == nil || res.Violation.Class != rp.Class {
		// should not happen: every accepted step was tested
		fmt.Fprintf(os.Stderr, "worker: INFRA shrunk case no longer fails\n")
		return 2
	}
	min := *rp
	min.Scenario = raw
	min.Tape = res.Tape
	// res.Tape is the effective tape of the minimised run; replaying it must give the same run
	sc2 := decodeFresh(rp.Property, raw)
	res2 := execute(rp.Property, sc2, rp.RunSeed, res.Tape, true, true)
	if res2.Violation == nil || res2.Violation.Class != rp.Class || res2.TraceHash != res.TraceHash {
		min.Tape = sh.tape
		res2 = res
	}
	min.Detail = res2.Violation.Detail
	min.TraceHash = res2.TraceHash
	min.Steps = res2.Steps
	min.SimTime = res2.Now.String()
	min.Trace = res2.Trace
	min.Shrunk = true
	min.ShrinkStats = fmt.Sprintf("scenario %d -> %d bytes, tape %d -> %d decisions, %d candidate runs, %d accepted", origActs, len(raw), origTape, len(min.Tape), sh.tests, sh.accepted)
	writeJSON(out, min)
	fmt.Printf("SHRUNK %s\n", min.ShrinkStats)
	return 0
}
