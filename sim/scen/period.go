package scen

import (
	"fmt"
	"time"

	"detsim"
	"kcsim/world"
)

// Period is the scenario of C13: (refresh period, list latency, consumption
// delay) grid; the fake client observes when List calls start and return on
// the simulated clock.
type Period struct {
	Prop      string `json:"prop"`
	PeriodMs  int    `json:"period_ms"`
	LatPreMs  int    `json:"lat_pre_ms"`
	LatPostMs int    `json:"lat_post_ms"`
	VaryLat   bool   `json:"vary_lat"`
	Periods   int    `json:"periods"`      // horizon in periods
	CloseAtMs int    `json:"close_at_ms"`  // extra offset of the Close inside the cycle
	CloseAfterSteps int `json:"close_after_steps"` // > 0: Close is injected that many scheduler steps later instead (any point INSIDE the zero-time processing of a cycle)
	Writes    int    `json:"writes"`       // some traffic while relisting
	FailAt    int    `json:"fail_at,omitempty"`   // > 0: that list call fails with FailKind
	FailKind  string `json:"fail_kind,omitempty"`
	Twin bool `json:"twin,omitempty"` // the builder is reused for a second controller over another server: each controller keeps listing ITS client
	WatchFaults bool `json:"watch_faults,omitempty"` // watch streams end and connects fail while relisting goes on (the retry timer and the relist reset interleave)
	// GateUs > 0: the controller-level filter holds the controller up for that long
	// whenever a certain object changes (every other period or so): list results
	// wait to be consumed, and the next list is due a period after the CONSUMPTION
	GateUs     int   `json:"gate_us,omitempty"`
	BusyCostUs int   `json:"busy_cost_us,omitempty"` // > 0: the root filter costs this much per object and a writer keeps the watch saturated (two writes per cost) for the whole run: list results must still be taken
	Sim       SimCfg `json:"sim"`
}

var latRatios = []int{0, 50, 95, 105, 200, 500} // latency / period in percent

func genC13(g GenCtx) interface{} {
	rng := g.Rng
	sc := &Period{Prop: g.Prop}
	sc.PeriodMs = pickInt(rng, 10, 100, 1000, 60000)
	// the grid is enumerated systematically by the run index
	r := latRatios[g.Idx%len(latRatios)]
	lat := sc.PeriodMs * r / 100
	split := (g.Idx / len(latRatios)) % 3
	switch split {
	case 0:
		sc.LatPreMs = lat
	case 1:
		sc.LatPostMs = lat
	default:
		sc.LatPreMs, sc.LatPostMs = lat/2, lat-lat/2
	}
	sc.VaryLat = rng.Intn(3) == 0
	sc.Periods = 3 + rng.Intn(18)
	if rng.Intn(25) == 0 {
		sc.Periods = 120 + rng.Intn(300) // counters and accumulations only show after many cycles
		sc.PeriodMs = pickInt(rng, 10, 100)
	}
	sc.CloseAtMs = rng.Intn(2*sc.PeriodMs + 1)
	if rng.Intn(2) == 0 {
		sc.CloseAfterSteps = 1 + rng.Intn(400)
	}
	sc.Writes = rng.Intn(10)
	if rng.Intn(6) == 0 {
		// a list fails: the controller stops (C14) - or, if it does not, it must
		// not sit there alive without ever listing again
		sc.FailAt = 1 + rng.Intn(sc.Periods)
		sc.FailKind = pick(rng, "error", "error-typed-nil", "error-with-list", "error-with-full-list", "error-timeout", "error-canceled", "error-canceled-bare", "error-deadline-bare", "error-notrunning", "error-notrunning-wrapped", "error-nilcause", "error-nilcause-with-list", "error-aggregate", "error-server-timeout", "error-gateway-timeout", "error-too-many-requests", "error-forbidden")
	}
	if g.Idx%20 == 13 {
		// "never" spelled as a huge period (a year, decades): no list but the first
		// (the simulated clock is int64 nanoseconds: 292 years in all, so the whole
		// run - horizon, liveness window, stall moves - has to stay well below that)
		sc.PeriodMs = pickInt(rng, 365*24*3600*1000, 3*365*24*3600*1000)
		sc.Periods = 2
		sc.LatPreMs, sc.LatPostMs = 0, pickInt(rng, 0, 5)
		sc.CloseAtMs = rng.Intn(1000)
		sc.CloseAfterSteps = 0
	}
	sc.Twin = rng.Intn(6) == 0
	sc.WatchFaults = rng.Intn(4) == 0
	busy := g.Idx%10 == 7
	if busy {
		sc.PeriodMs = pickInt(rng, 50, 100)
		sc.LatPreMs, sc.LatPostMs = 0, pickInt(rng, 0, 0, sc.PeriodMs/2)
		sc.Periods = 6 + rng.Intn(10)
		sc.BusyCostUs = sc.PeriodMs * 1000 / pickInt(rng, 10, 25)
		sc.FailAt, sc.FailKind = 0, ""
		sc.VaryLat = false
		sc.CloseAtMs = rng.Intn(2*sc.PeriodMs + 1)
	}
	gate := g.Idx%10 == 3 && sc.PeriodMs < 365*24*3600*1000
	if gate {
		sc.PeriodMs = pickInt(rng, 50, 100, 1000)
		sc.LatPreMs, sc.LatPostMs = 0, pickInt(rng, 0, 0, sc.PeriodMs/4)
		sc.Periods = 8 + rng.Intn(10)
		sc.GateUs = sc.PeriodMs * 10 * pickInt(rng, 30, 60, 150, 300) // 0.3 .. 3 periods
		sc.BusyCostUs = 0
		sc.FailAt, sc.FailKind, sc.VaryLat, sc.Twin, sc.WatchFaults = 0, "", false, false, false
		sc.CloseAtMs = rng.Intn(2*sc.PeriodMs + 1)
	}
	// consumption delay: the controller loop / lister / ticker starved by a drawn factor
	sc.Sim = SimCfg{Strategy: randStrategy(rng, []string{"Create>c.run", "newLister>l.run", "newTicker>t.run", "_lister.list>func", "newCache>c.run"}),
		NewTimers: rng.Intn(3) == 0, PermuteMaps: true, MaxSteps: 120000, EstSteps: 2000}
	sc.Sim.Strategy.StallPermille = pickInt(rng, 0, 0, 10, 50)
	sc.Sim.Strategy.StallMaxMs = sc.PeriodMs
	if sc.PeriodMs >= 365*24*3600*1000 {
		sc.Sim.Strategy.StallPermille = 0
		sc.WatchFaults = false
	}
	if gate {
		sc.Sim.Strategy = detsim.Strategy{Kind: "uniform"}
		sc.Sim.MaxSteps = 300000
	}
	if busy {
		// fairness of the controller's select is the point: plain random choice
		sc.Sim.Strategy = detsim.Strategy{Kind: "uniform"}
		sc.Sim.MaxSteps = 600000
	}
	return sc
}

func runC13(sci interface{}) {
	sc := sci.(*Period)
	setBufsiz(100)
	if sc.PeriodMs <= 0 {
		return
	}
	per := ms(sc.PeriodMs)
	lat := ms(sc.LatPreMs + sc.LatPostMs)
	srv := world.NewServer("pod")
	srv.ListLatency = [2]time.Duration{ms(sc.LatPreMs), ms(sc.LatPostMs)}
	srv.VaryLatency = sc.VaryLat
	if sc.WatchFaults {
		srv.F = world.NewFaults(map[string]world.Fault{
			"watch-close-idle": {Budget: 3, Denom: 2}, "watch-close-after-burst": {Budget: 2, Denom: 2},
			"watch-connect-error": {Budget: 2, Denom: 3}, "watch-expired-frame": {Budget: 1, Denom: 3}})
	}
	if sc.FailAt > 0 {
		if !sc.WatchFaults {
			srv.F = world.NewFaults(nil)
		}
		srv.F.ListScript[sc.FailAt] = sc.FailKind
	}
	rootFilter := world.FilterSpec{}
	busyCost := time.Duration(sc.BusyCostUs) * time.Microsecond
	if busyCost > 0 {
		rootFilter = world.FilterSpec{Op: "slow", V: itoa(sc.BusyCostUs)}
	}
	gateCost := time.Duration(sc.GateUs) * time.Microsecond
	if gateCost > 0 {
		rootFilter = world.FilterSpec{Op: "gate", V: itoa(sc.GateUs)}
		world.StaticEvals = nil
		srv.Apply(world.Spec{NS: "a0", Name: "static"}) // (sorts first: lists are reconciled in order, so the filter sees it the moment a result is taken)
	}
	h := world.NewH(srv, rootFilter, per, false)
	var twinSrv *world.Server
	if sc.Twin {
		twinSrv = world.NewServer("pod")
		twinSrv.Apply(world.Spec{NS: "other", Name: "x"})
		twinSrv.ListLatency, twinSrv.VaryLatency = srv.ListLatency, srv.VaryLatency
		h.TwinSrv = twinSrv
	}
	h.Start()
	closeTwin := func() {
		if h.Twin != nil {
			h.Twin.Close()
			if !world.WaitClosed(h.Twin.Done(), time.Second+200*busyCost) {
				detsim.Fail("hang:Close", "closing the second controller made from the same builder did not complete")
			}
		}
	}
	stopBusy := false
	if busyCost > 0 {
		go func() {
			for i := 0; !stopBusy; i++ {
				srv.Apply(world.Spec{NS: "n1", Name: "busy" + itoa(i%2), Labels: map[string]string{"i": itoa(i)}})
				time.Sleep(busyCost / 2)
			}
		}()
		defer func() { stopBusy = true }()
		// the controller takes a pending list result within a few iterations of
		// its loop, each of which may cost one filter evaluation
		lat += 40 * busyCost
	}
	if gateCost > 0 {
		go func() {
			for i := 0; !stopBusy; i++ {
				time.Sleep(per + per/3)
				srv.Apply(world.Spec{NS: "n1", Name: "gate", Labels: map[string]string{"i": itoa(i)}})
				time.Sleep(gateCost)
			}
		}()
		defer func() { stopBusy = true }()
		lat += 2 * gateCost // a list result may wait that long for the controller, and its reconcile may meet a version of the gate object it has not seen
	}
	horizon := time.Duration(sc.Periods) * per
	step := horizon / time.Duration(sc.Writes+1)
	for i := 0; i <= sc.Writes; i++ {
		time.Sleep(step)
		if i < sc.Writes {
			srv.Apply(world.Spec{NS: "n1", Name: "a", Labels: map[string]string{"i": itoa(i)}})
		}
		checkListDiscipline(srv, per)
	}
	if detsim.IsClosed(h.Ctrl.Done()) {
		if sc.FailAt > 0 && len(srv.Lists) >= sc.FailAt {
			// fail-stop after the scripted list failure: nothing may be left behind
			closeTwin()
			detsim.Settle()
			checkNoLeak()
			return
		}
		detsim.Fail("controller-died", "controller shut down although no list failed: %v", h.Ctrl.Error())
	}
	if gateCost > 0 {
		// each list starts no earlier than about one period after the previous
		// result was CONSUMED (reconciled: the filter saw the object that never changes)
		evals := world.StaticEvals
		detsim.Count("probe:list-results-consumed-late")
		for i := 0; i < len(evals) && i+1 < len(srv.Lists); i++ {
			l, next := srv.Lists[i], srv.Lists[i+1]
			if !l.Done || evals[i] < l.End {
				detsim.Fail("infra:scenario", "list#%d: consumption noted at %v, before the call returned (%v)", l.N, evals[i], l.End)
			}
			if gap := next.Start - evals[i]; gap < per*9/10-time.Microsecond {
				detsim.Fail("relist-too-early", "list#%d started %v after the result of list#%d was consumed (returned at %v, consumed at %v while the controller was held up for %v by its filter); the refresh period is %v (-10%% fuzz)\n%s", next.N, gap, l.N, l.End, evals[i], gateCost, per, srv.Summary())
			}
		}
	}
	stalls := sc.Sim.Strategy.StallPermille > 0
	if !stalls {
		// progress: every cycle takes at most latency + 1.1 x period (+1ns fuzz rounding)
		cycle := lat + per + per/10 + time.Microsecond
		min := int(horizon/cycle) - 1
		if len(srv.Lists) < min {
			detsim.Fail("relisting-stopped", "only %d list calls in %v (period %v, latency %v): at least %d expected\n%s", len(srv.Lists), horizon, per, lat, min, srv.Summary())
		}
	}
	// liveness once perturbation stops: another list call starts within one cycle
	detsim.FairMode()
	n0 := len(srv.Lists)
	inflight := srv.InflightLists
	bound := 2*(lat+per+per/10) + time.Millisecond
	t := detsim.NewTimerAt("deadline", bound)
	<-t.C
	if sc.FailAt > 0 && len(srv.Lists) >= sc.FailAt && detsim.IsClosed(h.Ctrl.Done()) {
		closeTwin()
		detsim.Settle()
		checkNoLeak()
		return
	}
	if len(srv.Lists) <= n0 {
		detsim.Fail("relisting-stopped", "no new list call within %v after %d calls (period %v, latency %v, %d in flight)\n%s", bound, n0, per, lat, inflight, srv.Summary())
	}
	checkListDiscipline(srv, per)
	if h.Twin != nil {
		// the second controller lists its own server, at the same period
		checkListDiscipline(twinSrv, per)
		if len(twinSrv.Lists) == 0 {
			detsim.Fail("relisting-stopped", "the second controller made from the same builder never listed its client")
		}
		closeTwin()
	}
	stopBusy = true
	grace := time.Millisecond + 200*busyCost + 6*gateCost // filter evaluations in progress (an event, a relist of a few objects) are not interrupted, and the shutdown request competes with ready events
	// and it still shuts down promptly, wherever in the cycle
	if sc.CloseAfterSteps > 0 {
		// shutdown-point injection by step count: lands between any two hand-offs
		// of a cycle (e.g. while a list result is waiting to be consumed)
		fired := false
		closed := make(chan struct{})
		detsim.AtStep(detsim.Steps()+sc.CloseAfterSteps, "c13-close", func() {
			fired = true
			h.Ctrl.Close()
			close(closed)
		})
		limit := detsim.Elapsed() + 4*(per+lat) + time.Second
		for !fired && detsim.Elapsed() < limit {
			time.Sleep(per/7 + time.Microsecond)
		}
		if fired {
			if !world.WaitClosed(closed, grace) {
				detsim.Fail("hang:Close", "Controller.Close(), issued at an arbitrary point of the list/tick cycle, did not return\n%s\n%s", dumpLive(), srv.Summary())
			}
			if !world.WaitClosed(h.Ctrl.Done(), grace) {
				detsim.Fail("hang:Done", "Controller.Done() did not close after Close() returned")
			}
			detsim.Settle()
			checkNoLeak()
			return
		}
	}
	time.Sleep(ms(sc.CloseAtMs))
	checkListDiscipline(srv, per)
	closeAndCheckClean(h, grace)
}

// checkListDiscipline: one list at a time; call i+1 starts no earlier than
// 0.9 x period after call i returned (its result is consumed after that).
func checkListDiscipline(srv *world.Server, per time.Duration) {
	if srv.MaxInflight > 1 {
		detsim.Fail("concurrent-lists", "%d list calls were in flight at the same time\n%s", srv.MaxInflight, srv.Summary())
	}
	for i := 1; i < len(srv.Lists); i++ {
		prev, cur := srv.Lists[i-1], srv.Lists[i]
		if !prev.Done {
			detsim.Fail("concurrent-lists", "list#%d started before list#%d returned\n%s", cur.N, prev.N, srv.Summary())
		}
		if gap := cur.Start - prev.End; gap < per*9/10-time.Microsecond {
			detsim.Fail("relist-too-early", "list#%d started %v after list#%d returned; the refresh period is %v (-10%% fuzz)\n%s", cur.N, gap, prev.N, per, srv.Summary())
		}
	}
}

func init() {
	Registry["C13"] = &Family{
		Gen: genC13,
		New: func() interface{} { return &Period{} },
		Run: runC13,
		Sim: func(sc interface{}) SimCfg { return sc.(*Period).Sim },
		Describe: func(sci interface{}) string {
			sc := sci.(*Period)
			return fmt.Sprintf("period=%dms latency=%d+%dms vary=%v horizon=%d periods close+%dms writes=%d strategy=%s/%s stall=%d newtimers=%v",
				sc.PeriodMs, sc.LatPreMs, sc.LatPostMs, sc.VaryLat, sc.Periods, sc.CloseAtMs, sc.Writes, sc.Sim.Strategy.Kind, sc.Sim.Strategy.StarveName, sc.Sim.Strategy.StallPermille, sc.Sim.NewTimers)
		},
		Nontrivial: func(sci interface{}, res *detsim.Result) bool {
			return sci.(*Period).Periods >= 3 && res.TimerFires > 5
		},
	}
}
