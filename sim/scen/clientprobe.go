package scen

import (
	"bytes"
	"context"
	"fmt"
	"io"
	"net/http"
	"strings"

	"detsim"

	"github.com/boz/kcache/client"
	metav1 "k8s.io/apimachinery/pkg/apis/meta/v1"
	"k8s.io/client-go/kubernetes"
	"k8s.io/client-go/rest"
)

// The last clause of C20: "each typed client lists and watches the API resource
// of its own type in the requested namespace (all namespaces when none is
// given)".  The typed client of a package is driven over client-go's REST layer
// with the network replaced by a scripted in-process transport: every request
// the client issues - first attempts and whatever it does after the transport
// answered with a fault - is recorded and must address the collection of the
// package's type in the requested namespace, with the caller's resourceVersion.
//
// client-go itself is not instrumented; nothing here is concurrent (calls are
// synchronous, watch replies are refused or empty), so a run is a pure function
// of its script.

// typedClients is filled by the per-package glue files.
var typedClients = map[string]func(kubernetes.Interface, string) client.Client{}

// apiHome: where the API serves each kind (the harness' own statement).
var apiHome = map[string]struct{ prefix, resource, listKind, apiVersion string }{
	"pod":                   {"/api/v1", "pods", "PodList", "v1"},
	"service":               {"/api/v1", "services", "ServiceList", "v1"},
	"secret":                {"/api/v1", "secrets", "SecretList", "v1"},
	"node":                  {"/api/v1", "nodes", "NodeList", "v1"},
	"event":                 {"/api/v1", "events", "EventList", "v1"},
	"replicationcontroller": {"/api/v1", "replicationcontrollers", "ReplicationControllerList", "v1"},
	"ingress":               {"/apis/networking.k8s.io/v1beta1", "ingresses", "IngressList", "networking.k8s.io/v1beta1"},
	"job":                   {"/apis/batch/v1", "jobs", "JobList", "batch/v1"},
	"daemonset":             {"/apis/apps/v1", "daemonsets", "DaemonSetList", "apps/v1"},
	"deployment":            {"/apis/apps/v1", "deployments", "DeploymentList", "apps/v1"},
	"replicaset":            {"/apis/apps/v1", "replicasets", "ReplicaSetList", "apps/v1"},
	"statefulset":           {"/apis/apps/v1", "statefulsets", "StatefulSetList", "apps/v1"},
}

// ProbeOp is one call on the typed client and the statuses the transport
// answers its successive requests with (the last one repeats).
type ProbeOp struct {
	Op       string `json:"op"` // list | watch
	RV       string `json:"rv,omitempty"`
	Statuses []int  `json:"statuses"`
}

type ClientProbe struct {
	Kind string    `json:"kind"`
	NS   string    `json:"ns"`
	Base string    `json:"base,omitempty"` // the API server is reached under a path of its own (kubectl proxy --api-prefix, cluster proxies)
	Ops  []ProbeOp `json:"ops"`
	Sim  SimCfg    `json:"sim"`
}

type probeTransport struct {
	kind     string
	statuses []int
	n        int
	reqs     []*http.Request
}

func (t *probeTransport) RoundTrip(req *http.Request) (*http.Response, error) {
	t.reqs = append(t.reqs, req)
	st := 200
	if len(t.statuses) > 0 {
		i := t.n
		if i >= len(t.statuses) {
			i = len(t.statuses) - 1
		}
		st = t.statuses[i]
	}
	t.n++
	detsim.Count(fmt.Sprintf("fault:http-status-%d", st))
	home := apiHome[t.kind]
	body := ""
	isWatch := strings.Contains(req.URL.Path, "/watch/") || req.URL.Query().Get("watch") == "true" || req.URL.Query().Get("watch") == "1"
	switch {
	case st == 200 && isWatch:
		body = "" // a stream that ends at once
	case st == 200:
		body = fmt.Sprintf(`{"kind":%q,"apiVersion":%q,"metadata":{"resourceVersion":"10"},"items":[]}`, home.listKind, home.apiVersion)
	default:
		reason := map[int]string{404: "NotFound", 403: "Forbidden", 410: "Expired", 500: "InternalError", 503: "ServiceUnavailable", 401: "Unauthorized", 400: "BadRequest"}[st]
		body = fmt.Sprintf(`{"kind":"Status","apiVersion":"v1","metadata":{},"status":"Failure","message":"injected","reason":%q,"code":%d}`, reason, st)
	}
	return &http.Response{
		StatusCode: st, Status: fmt.Sprintf("%d injected", st), Proto: "HTTP/1.1", ProtoMajor: 1, ProtoMinor: 1,
		Header:  http.Header{"Content-Type": []string{"application/json"}},
		Body:    io.NopCloser(bytes.NewBufferString(body)),
		Request: req,
	}, nil
}

func genClientProbe(g GenCtx) *ClientProbe {
	rng := g.Rng
	sc := &ClientProbe{Kind: AllKindsOf()[(g.Idx/16)%len(AllKindsOf())]}
	sc.NS = pick(rng, "", "n1", "kube-system", "team-a")
	sc.Base = pick(rng, "", "", "/k8s/clusters/c-1", "/proxy")
	for i := 1 + rng.Intn(5); i > 0; i-- {
		op := ProbeOp{Op: pick(rng, "list", "watch", "watch"), RV: pick(rng, "", "0", "10", "4711")}
		for k := 1 + rng.Intn(3); k > 0; k-- {
			op.Statuses = append(op.Statuses, pickInt(rng, 200, 200, 404, 404, 500, 503, 410, 403, 401, 400))
		}
		sc.Ops = append(sc.Ops, op)
	}
	sc.Sim = SimCfg{Strategy: randStrategy(rng, nil), MaxSteps: 20000, EstSteps: 50}
	return sc
}

func runClientProbe(sc *ClientProbe) {
	mk := typedClients[sc.Kind]
	home, ok := apiHome[sc.Kind]
	if mk == nil || !ok {
		detsim.Fail("infra:scenario", "no typed client glue for kind %q", sc.Kind)
	}
	for _, op := range sc.Ops {
		tr := &probeTransport{kind: sc.Kind, statuses: op.Statuses}
		cs, err := kubernetes.NewForConfigAndClient(&rest.Config{Host: "http://apiserver.invalid" + sc.Base, QPS: -1}, &http.Client{Transport: tr})
		if err != nil {
			detsim.Fail("infra:scenario", "clientset: %v", err)
		}
		c := mk(cs, sc.NS)
		opts := metav1.ListOptions{ResourceVersion: op.RV}
		ctx, cancel := context.WithCancel(context.Background())
		switch op.Op {
		case "list":
			c.List(ctx, opts)
		case "watch":
			if w, err := c.Watch(ctx, opts); err == nil && w != nil {
				w.Stop()
			}
		}
		cancel()
		if op.Op != "list" && op.Op != "watch" {
			continue
		}
		if len(tr.reqs) == 0 {
			detsim.Fail("typed-client-wrong-request", "%s client, namespace %q: %s issued no request at all", sc.Kind, sc.NS, op.Op)
		}
		for i, r := range tr.reqs {
			path := r.URL.Path
			want := sc.Base + home.prefix
			if sc.NS != "" {
				want += "/namespaces/" + sc.NS
			}
			want += "/" + home.resource
			legacy := sc.Base + home.prefix + "/watch" + strings.TrimPrefix(want, sc.Base+home.prefix)
			q := r.URL.Query()
			isWatch := q.Get("watch") == "true" || q.Get("watch") == "1"
			okPath := path == want && (op.Op == "list" && !isWatch || op.Op == "watch" && isWatch) || op.Op == "watch" && path == legacy
			if r.Method != "GET" || !okPath {
				detsim.Fail("typed-client-wrong-request", "%s client for namespace %q: request %d of %s(resourceVersion=%q) after transport statuses %v is %s %s - expected GET %s (the collection of its own type in the requested namespace)", sc.Kind, sc.NS, i+1, op.Op, op.RV, op.Statuses[:min(i, len(op.Statuses))], r.Method, r.URL.RequestURI(), want)
			}
			if got := q.Get("resourceVersion"); got != op.RV {
				detsim.Fail("typed-client-wrong-request", "%s client for namespace %q: request %d of %s carries resourceVersion=%q, the caller asked for %q (%s)", sc.Kind, sc.NS, i+1, op.Op, got, op.RV, r.URL.RequestURI())
			}
		}
	}
}

func min(a, b int) int {
	if a < b {
		return a
	}
	return b
}
