package scen

import (
	"context"
	"fmt"
	"math/rand"
	"sort"
	"strconv"
	"strings"
	"time"

	"detsim"
	"kcsim/world"

	"github.com/anishathalye/porcupine"
	"github.com/boz/kcache"
	metav1 "k8s.io/apimachinery/pkg/apis/meta/v1"
)

// Linear is the scenario of C15: writer and reader goroutines hammer one cache
// actor; the recorded invoke/return history (stamped with a global event
// counter) is checked for linearizability against the reference cache with
// porcupine.  cache.go is built with statement-level preemption points, so a
// read that bypasses the actor goroutine sees half-applied states.
type Linear struct {
	// Big > 0: the "large state" profile - one writer alternates between
	// complete states of Big objects (sizes vary over three orders of magnitude
	// across runs), readers must only ever see one of those states.
	Big     int              `json:"big,omitempty"`
	BigOps  int              `json:"big_ops,omitempty"`
	// Markers > 0 (with Big): a huge population of Big objects that never change plus
	// Markers marker objects which one writer raises, round after round in a fixed
	// order, by single update events; every List() of the readers must be a state
	// that existed (marker versions never increase with the index, spread <= 1)
	Markers int `json:"markers,omitempty"`
	Prop    string           `json:"prop"`
	Filter  world.FilterSpec `json:"filter"`
	Writers [][]CacheOp      `json:"writers"`
	Readers [][]string       `json:"readers"` // per reader: "list" | "get:<ns>/<name>" | "scribble"
	// CancelAtStep > 0: the cache's context is cancelled that many scheduler
	// steps into the run - anywhere, also in the middle of a relist.  Operations
	// may then fail; a failed write may or may not have been applied; every read
	// that still succeeds must be a complete state.
	CancelAtStep int `json:"cancel_at_step,omitempty"`
	// Bystander > 0: elsewhere in the process a controller with that many objects
	// has a monitor whose handler keeps the list OnInitialize handed it - that
	// slice and the slices List() returns here have nothing to do with each other
	Bystander int `json:"bystander,omitempty"`
	Sim     SimCfg           `json:"sim"`
}

type linIn struct {
	Kind string // sync update refilter list get
	Op   CacheOp
	Key  string
}

type linOut struct {
	IDs   []string // list result / get result (0 or 1 element)
	Maybe bool     // a write that returned an error after the cancellation: applied or not
}

type histOp struct {
	Client   int
	In       linIn
	Out      linOut
	Call     int64
	Ret      int64
	Finished bool
	Dropped  bool // a read that failed after the cancellation: says nothing
}

var lastHistory []histOp
var lastFilter world.FilterSpec

func genC15(g GenCtx) interface{} {
	rng := g.Rng
	sc := &Linear{Prop: g.Prop}
	if g.Idx%8 == 7 {
		// size is a knob like any other: a batching / chunking / memoising
		// optimisation only shows above its threshold
		sc.Big = pickInt(rng, 9, 33, 65, 130, 260, 520, 1030)
		sc.BigOps = 2 + rng.Intn(3)
		if (g.Idx/8)%32 == 1 {
			// tens of thousands of objects under a stream of single updates
			sc.Big = pickInt(rng, 9000, 17000, 33000)
			sc.Markers = pickInt(rng, 8, 24)
			sc.BigOps = 3 + rng.Intn(4)
		}
		nr := 1 + rng.Intn(3)
		for r := 0; r < nr; r++ {
			var ops []string
			for i := 2 + rng.Intn(4); i > 0; i-- {
				ops = append(ops, "list")
			}
			sc.Readers = append(sc.Readers, ops)
		}
		sc.Sim = SimCfg{Strategy: randStrategy(rng, []string{"newCache>c.run", "runC15>func"}), PermuteMaps: true, MaxSteps: 3000000, EstSteps: 20000}
		sc.Sim.Strategy.StallPermille = 0
		return sc
	}
	if g.Idx%8 == 3 {
		// hand-over relists: every cached object comes back rejected (and newer)
		// while another one takes its place - the cache is never empty, and no
		// reader may see it empty
		sc.Filter = world.FilterSpec{Op: "labels", K: "app", V: "a"}
		ver := 1
		var ops []CacheOp
		keys := [][2]string{{"n1", "a"}, {"n1", "b"}, {"n2", "a"}}
		in := 0
		for i := 2 + rng.Intn(5); i > 0; i-- {
			var l []world.Spec
			for k, key := range keys {
				ver++
				lab := "b"
				if k == in {
					lab = "a"
				}
				l = append(l, world.Spec{NS: key[0], Name: key[1], RV: strconv.Itoa(ver), Labels: map[string]string{"app": lab}})
			}
			// the accepted one last, first, or in the middle
			rng.Shuffle(len(l), func(i, j int) { l[i], l[j] = l[j], l[i] })
			ops = append(ops, CacheOp{Op: "sync", List: l})
			in = (in + 1 + rng.Intn(2)) % len(keys)
		}
		sc.Writers = [][]CacheOp{ops}
		for r := 1 + rng.Intn(4); r > 0; r-- {
			var rops []string
			for i := 2 + rng.Intn(5); i > 0; i-- {
				rops = append(rops, "list")
			}
			sc.Readers = append(sc.Readers, rops)
		}
		sc.Sim = SimCfg{Strategy: randStrategy(rng, []string{"newCache>c.run", "runC15>func"}), PermuteMaps: true, MaxSteps: 200000, EstSteps: 3000}
		sc.Sim.Strategy.StallPermille = 0
		return sc
	}
	sc.Filter = randFilter(rng)
	nw := 1 + rng.Intn(2)
	nkeys := 1 + rng.Intn(3)
	if rng.Intn(4) == 0 {
		nkeys = 4 + rng.Intn(3) // enough objects for a relist to drop most of them and keep one
	}
	// writers alternate between distinguishable complete states; every written
	// version is unique so that each read is attributable to one write
	ver := 1
	total := 0
	for w := 0; w < nw; w++ {
		var ops []CacheOp
		n := 1 + rng.Intn(6)
		for i := 0; i < n && total < 14; i++ {
			total++
			mk := func() world.Spec {
				k := cacheKeys[rng.Intn(nkeys)]
				ver++
				return world.Spec{NS: k[0], Name: k[1], RV: strconv.Itoa(ver), Labels: randLabels(rng)}
			}
			stale := func() world.Spec {
				// a list taken before writes the cache has already seen: an older version
				o := mk()
				if v := ver - 2 - rng.Intn(4); v > 0 {
					o.RV = strconv.Itoa(v)
				}
				return o
			}
			uniq := func() []world.Spec {
				var l []world.Spec
				seen := map[string]bool{}
				for j := rng.Intn(nkeys + 2); j > 0; j-- {
					s := mk()
					if rng.Intn(4) == 0 {
						s = stale()
					}
					if !seen[s.Key()] {
						seen[s.Key()] = true
						l = append(l, s)
					}
				}
				return l
			}
			switch r := rng.Intn(10); {
			case r < 4:
				ops = append(ops, CacheOp{Op: "sync", List: uniq()})
			case r < 7:
				ops = append(ops, CacheOp{Op: "update", Typ: "update", Obj: mk()})
			case r < 8:
				o := mk()
				o.RV = "1000000" // never stale: stale deletes are unspecified
				ops = append(ops, CacheOp{Op: "update", Typ: "delete", Obj: o})
			default:
				ops = append(ops, CacheOp{Op: "refilter", List: uniq(), Filter: randFilter(rng)})
			}
		}
		sc.Writers = append(sc.Writers, ops)
	}
	if rng.Intn(6) == 0 {
		sc.Bystander = pickInt(rng, 3, 8, 20)
	}
	nr := 1 + rng.Intn(6)
	for r := 0; r < nr; r++ {
		var ops []string
		for i := 1 + rng.Intn(5); i > 0 && total < 40; i-- {
			total++
			switch rng.Intn(6) {
			case 0:
				k := cacheKeys[rng.Intn(nkeys)]
				if rng.Intn(2) == 0 {
					ops = append(ops, "getobj:"+k[0]+"/"+k[1]+"#"+pick(rng, "app=a", "app=b", "tier=x", "none"))
				} else {
					ops = append(ops, "get:"+k[0]+"/"+k[1])
				}
			case 1:
				ops = append(ops, "scribble")
			default:
				ops = append(ops, "list")
			}
		}
		sc.Readers = append(sc.Readers, ops)
	}
	sc.Sim = SimCfg{Strategy: randStrategy(rng, []string{"newCache>c.run", "runC15>func"}), PermuteMaps: true, MaxSteps: 100000, EstSteps: 1500}
	sc.Sim.Strategy.StallPermille = 0
	if rng.Intn(6) == 0 {
		sc.CancelAtStep = 1 + rng.Intn(pickInt(rng, 200, 1000, 3000))
	}
	return sc
}

// runC15Big: one writer replaces the whole content by complete states of
// sc.Big objects; every List() of every reader must equal one of the states
// the writer produced (never a half-applied relist).
// runC15Markers: see Linear.Markers.
func runC15Markers(sc *Linear) {
	ctx, cancel := context.WithCancel(context.Background())
	defer cancel()
	c := kcache.VerifNewCache(ctx, world.NewLog(false), make(chan struct{}), world.FilterSpec{}.Build())
	var l []metav1.Object
	for k := 0; k < sc.Big; k++ {
		l = append(l, world.BuildMeta("pod", world.Spec{NS: "pad", Name: "p" + strconv.Itoa(k), RV: "1"}))
	}
	// the markers' names sort evenly among the padding: whatever order a map
	// iteration takes (the simulator's permutations of big maps are rotations and
	// reversals of the sorted order), they are spread over the whole population
	mname := func(i int) string { return fmt.Sprintf("p%05d-m%03d", i*sc.Big/sc.Markers, i) }
	for i := 0; i < sc.Markers; i++ {
		l = append(l, world.BuildMeta("pod", world.Spec{NS: "pad", Name: mname(i), RV: "1", Labels: map[string]string{"marker": "1"}}))
	}
	if _, err := c.Sync(l); err != nil {
		detsim.Fail("cache-op-error", "sync on a running cache: %v", err)
	}
	done := make(chan struct{})
	left := 1 + len(sc.Readers)
	fin := func() {
		left--
		if left == 0 {
			close(done)
		}
	}
	go func() {
		defer fin()
		for round := 2; round < 2+sc.BigOps; round++ {
			for i := 0; i < sc.Markers; i++ {
				if _, err := c.Update(kcache.NewEvent(kcache.EventTypeUpdate, world.BuildMeta("pod", world.Spec{NS: "pad", Name: mname(i), RV: strconv.Itoa(round), Labels: map[string]string{"marker": "1"}}))); err != nil {
					detsim.Fail("cache-op-error", "update on a running cache: %v", err)
				}
			}
		}
	}()
	for r := range sc.Readers {
		ops := sc.Readers[r]
		go func() {
			defer fin()
			for range ops {
				objs, err := c.List()
				if err != nil {
					detsim.Fail("cache-read-error", "List on a running cache: %v", err)
				}
				vers := make([]int, sc.Markers)
				n := 0
				for _, o := range objs {
					if o.GetLabels()["marker"] != "" {
						var pos, i int
						fmt.Sscanf(o.GetName(), "p%d-m%d", &pos, &i)
						vers[i], _ = strconv.Atoi(o.GetResourceVersion())
						n++
					}
				}
				world.Scribble(objs)
				if n != sc.Markers || len(objs) != sc.Big+sc.Markers {
					detsim.Fail("torn-read", "List() returned %d objects (%d markers) of a cache that always holds %d (%d markers)", len(objs), n, sc.Big+sc.Markers, sc.Markers)
				}
				for i := 1; i < sc.Markers; i++ {
					if vers[i] > vers[i-1] || vers[0]-vers[i] > 1 {
						detsim.Fail("torn-read", "List() over %d objects returned a state that never existed: the markers are raised one by one in index order, yet the snapshot shows %v (index %d)", len(objs), vers, i)
					}
				}
				detsim.Yield("reader")
			}
		}()
	}
	if !world.WaitClosed(done, time.Hour) {
		detsim.Fail("wedge", "cache clients did not finish")
	}
}

func runC15Big(sc *Linear) {
	if sc.Markers > 0 {
		runC15Markers(sc)
		return
	}
	ctx, cancel := context.WithCancel(context.Background())
	defer cancel()
	c := kcache.VerifNewCache(ctx, world.NewLog(false), make(chan struct{}), world.FilterSpec{}.Build())
	states := map[string]int{"": 0} // fingerprint of a complete state -> its number (0 = empty)
	fp := func(ids []string) string {
		if len(ids) == 0 {
			return ""
		}
		// all objects of a state carry that state's version: the version multiset identifies it
		vers := map[string]int{}
		for _, id := range ids {
			at := strings.Index(id, "@")
			br := strings.Index(id, "{")
			vers[id[at+1:br]]++
		}
		var ks []string
		for v, n := range vers {
			ks = append(ks, fmt.Sprintf("v%s x%d", v, n))
		}
		sort.Strings(ks)
		return strings.Join(ks, ",")
	}
	done := make(chan struct{})
	left := 1 + len(sc.Readers)
	fin := func() {
		left--
		if left == 0 {
			close(done)
		}
	}
	var lists [][]world.Spec
	for i := 1; i <= sc.BigOps; i++ {
		var l []world.Spec
		n := sc.Big
		if i%2 == 0 {
			n = sc.Big - sc.Big/3 // every other state is smaller: objects vanish, too
		}
		for k := 0; k < n; k++ {
			l = append(l, world.Spec{NS: "n" + strconv.Itoa(k%3), Name: "k" + strconv.Itoa(k), RV: strconv.Itoa(i)})
		}
		lists = append(lists, l)
		states[fp(world.SpecIDs(l))] = i
	}
	go func() {
		defer fin()
		for _, l := range lists {
			if _, err := c.Sync(objsOf(l)); err != nil {
				detsim.Fail("cache-op-error", "sync on a running cache: %v", err)
			}
		}
	}()
	for r := range sc.Readers {
		ops := sc.Readers[r]
		go func() {
			defer fin()
			last := 0
			for range ops {
				objs, err := c.List()
				if err != nil {
					detsim.Fail("cache-read-error", "List on a running cache: %v", err)
				}
				f := fp(world.IDs(objs))
				n, ok := states[f]
				if !ok {
					detsim.Fail("torn-read", "List() returned %d objects that mix several complete states (objects per version: %s); the writer only ever installed complete states of %d / %d objects", len(objs), f, sc.Big, sc.Big-sc.Big/3)
				}
				if n < last {
					detsim.Fail("read-went-backwards", "a reader saw state %d after state %d", n, last)
				}
				last = n
				detsim.Yield("reader")
			}
		}()
	}
	if !world.WaitClosed(done, time.Hour) {
		detsim.Fail("wedge", "cache clients did not finish")
	}
}

func runC15(sci interface{}) {
	sc := sci.(*Linear)
	lastHistory = nil
	lastFilter = sc.Filter
	if sc.Big > 0 {
		runC15Big(sc)
		return
	}
	ctx, cancel := context.WithCancel(context.Background())
	defer cancel()
	stopch := make(chan struct{})
	c := kcache.VerifNewCache(ctx, world.NewLog(false), stopch, sc.Filter.Build())
	var by *world.H
	if sc.Bystander > 0 {
		bsrv := world.NewServer("pod")
		for i := 0; i < sc.Bystander; i++ {
			bsrv.Apply(world.Spec{NS: "elsewhere", Name: "o" + itoa(i)})
		}
		by = world.NewH(bsrv, world.FilterSpec{}, noRelist, false)
		by.NoRelist, by.KeepInitAlways = true, true
		by.Start()
		if !world.WaitClosed(by.Ctrl.Ready(), time.Second) {
			detsim.Fail("not-ready", "bystander controller not ready")
		}
		if _, err := by.MakeNode(nil, "monitor", world.FilterSpec{}, ""); err != nil {
			detsim.Fail("api-error", "bystander monitor: %v", err)
		}
		detsim.Settle()
	}
	var clock int64
	tick := func() int64 { clock++; return clock }
	var hist []*histOp
	cancelled := false
	if sc.CancelAtStep > 0 {
		detsim.AtStep(detsim.Steps()+sc.CancelAtStep, "c15-cancel", func() {
			cancelled = true
			detsim.Count("probe:cache-context-cancelled-mid-run")
			cancel()
		})
	}
	left := len(sc.Writers) + len(sc.Readers)
	done := make(chan struct{})
	fin := func() {
		left--
		if left == 0 {
			close(done)
		}
	}
	if left == 0 {
		return
	}
	for w, ops := range sc.Writers {
		w, ops := w, ops
		go func() {
			defer fin()
			for _, op := range ops {
				h := &histOp{Client: w, In: linIn{Kind: op.Op, Op: op}, Call: tick()}
				hist = append(hist, h)
				var err error
				switch op.Op {
				case "sync":
					_, err = c.Sync(objsOf(op.List))
				case "refilter":
					_, err = c.Refilter(objsOf(op.List), op.Filter.Build())
				case "update":
					et := kcache.EventTypeUpdate
					if op.Typ == "delete" {
						et = kcache.EventTypeDelete
					}
					_, err = c.Update(kcache.NewEvent(et, world.BuildMeta("pod", op.Obj)))
				}
				if err != nil {
					if !cancelled {
						detsim.Fail("cache-op-error", "%s on a running cache: %v", op.Op, err)
					}
					h.Out.Maybe = true
				}
				h.Ret = tick()
				h.Finished = true
			}
		}()
	}
	for r, ops := range sc.Readers {
		r, ops := r, ops
		go func() {
			defer fin()
			for _, op := range ops {
				h := &histOp{Client: 100 + r, Call: tick()}
				hist = append(hist, h)
				if strings.HasPrefix(op, "get:") || strings.HasPrefix(op, "getobj:") {
					key := strings.TrimPrefix(strings.TrimPrefix(op, "getobj:"), "get:")
					var objLabels map[string]string
					if i := strings.Index(key, "#"); i >= 0 {
						if kv := strings.SplitN(key[i+1:], "=", 2); len(kv) == 2 {
							objLabels = map[string]string{kv[0]: kv[1]}
						}
						key = key[:i]
					}
					parts := strings.SplitN(key, "/", 2)
					h.In = linIn{Kind: "get", Key: key}
					var o metav1.Object
					var err error
					if strings.HasPrefix(op, "getobj:") {
						// by the caller's own copy of the object, which may be stale
						o, err = c.GetObject(world.BuildMeta("pod", world.Spec{NS: parts[0], Name: parts[1], RV: "1", Labels: objLabels}))
					} else {
						o, err = c.Get(parts[0], parts[1])
					}
					if err != nil {
						if !cancelled {
							detsim.Fail("cache-read-error", "Get on a running cache: %v", err)
						}
						h.Dropped = true
					}
					if o != nil {
						h.Out.IDs = []string{world.IDOf(o)}
					}
				} else {
					h.In = linIn{Kind: "list"}
					objs, err := c.List()
					if err != nil {
						if !cancelled {
							detsim.Fail("cache-read-error", "List on a running cache: %v", err)
						}
						h.Dropped = true
					}
					for _, o := range objs {
						if o == nil {
							detsim.Fail("torn-read", "List() returned a nil element (another caller's slice was scribbled on: the returned slice does not belong to the caller)")
						}
					}
					h.Out.IDs = world.IDs(objs)
					if len(objs) > 0 && op != "scribble" {
						// the caller keeps its slice for a while: nothing anybody else
						// does (another reader appending to ITS slice, the cache filling
						// a neighbouring window) may change it
						detsim.Yield("reader-holds-slice")
						detsim.Yield("reader-holds-slice")
						if later := world.IDs(objs); !world.SameIDs(later, h.Out.IDs) {
							detsim.Fail("torn-read", "a slice returned by List() changed while its caller held it (the returned slice does not belong to the caller)\n  at return: %v\n  later    : %v", h.Out.IDs, later)
						}
					}
					if op == "scribble" {
						// the returned slice belongs to the caller: append to it, then destroy it
						world.Scribble(objs)
					}
				}
				h.Ret = tick()
				h.Finished = true
			}
		}()
	}
	if !world.WaitClosed(done, time.Hour) {
		detsim.Fail("wedge", "cache clients did not finish")
	}
	if by != nil {
		detsim.Settle()
		for _, n := range by.Nodes {
			n.CheckKeptInit()
		}
		by.Ctrl.Close()
	}
	for _, h := range hist {
		if h.Dropped {
			continue
		}
		lastHistory = append(lastHistory, *h)
	}
}

// ---- the sequential model: reference cache, state encoded as a string

// (separators that can occur neither in a filter term's JSON nor in an object id)
func encodeState(filter string, ids []string) string { return filter + "\x00" + strings.Join(ids, "\x01") }

func decodeState(st string) (world.FilterSpec, *world.RefCache) {
	i := strings.Index(st, "\x00")
	var f world.FilterSpec
	jsonUnmarshal(st[:i], &f)
	ref := world.NewRefCache(f.Pred())
	if st[i+1:] != "" {
		for _, id := range strings.Split(st[i+1:], "\x01") {
			s := parseID(id)
			ref.Items[s.Key()] = s
		}
	}
	return f, ref
}

// parseID inverts world.Spec.ID(): ns/name@rv{k=v,...}
func parseID(id string) world.Spec {
	var s world.Spec
	at := strings.Index(id, "@")
	br := strings.Index(id, "{")
	key := id[:at]
	sl := strings.Index(key, "/")
	s.NS, s.Name = key[:sl], key[sl+1:]
	s.RV = id[at+1 : br]
	lab := strings.TrimSuffix(id[br+1:], "}")
	if lab != "" {
		s.Labels = map[string]string{}
		for _, kv := range strings.Split(strings.TrimSuffix(lab, ","), ",") {
			eq := strings.Index(kv, "=")
			s.Labels[kv[:eq]] = kv[eq+1:]
		}
	}
	return s
}

// linModel: the reference cache as a sequential specification.  It is
// nondeterministic in one place only: a write that returned an error after the
// context was cancelled may or may not have been applied.
func linModel() porcupine.Model {
	det := linDetModel()
	nd := porcupine.NondeterministicModel{
		Init: func() []interface{} { return []interface{}{det.Init()} },
		Step: func(state, input, output interface{}) []interface{} {
			ok, next := det.Step(state, input, output)
			if !ok {
				return nil
			}
			if out := output.(linOut); out.Maybe && next.(string) != state.(string) {
				return []interface{}{state, next}
			}
			return []interface{}{next}
		},
		Equal:             det.Equal,
		DescribeOperation: det.DescribeOperation,
	}
	return nd.ToModel()
}

func linDetModel() porcupine.Model {
	return porcupine.Model{
		Init: func() interface{} { return encodeState(jsonMarshal(lastFilter), nil) },
		Step: func(state, input, output interface{}) (bool, interface{}) {
			st := state.(string)
			in := input.(linIn)
			out := output.(linOut)
			f, ref := decodeState(st)
			switch in.Kind {
			case "sync":
				ref.Sync(in.Op.List)
			case "refilter":
				f = in.Op.Filter
				ref.Refilter(in.Op.List, f.Pred())
			case "update":
				ref.Update(in.Op.Typ, in.Op.Obj)
			case "list":
				return world.SameIDs(world.SpecIDs(ref.List()), out.IDs), st
			case "get":
				cur, ok := ref.Items[in.Key]
				if !ok {
					return len(out.IDs) == 0, st
				}
				return len(out.IDs) == 1 && out.IDs[0] == cur.ID(), st
			}
			return true, encodeState(jsonMarshal(f), world.SpecIDs(ref.List()))
		},
		Equal: func(a, b interface{}) bool { return a.(string) == b.(string) },
		DescribeOperation: func(input, output interface{}) string {
			in := input.(linIn)
			out := output.(linOut)
			switch in.Kind {
			case "list":
				return fmt.Sprintf("List() -> %v", out.IDs)
			case "get":
				return fmt.Sprintf("Get(%s) -> %v", in.Key, out.IDs)
			case "update":
				return fmt.Sprintf("update(%s %s)", in.Op.Typ, in.Op.Obj.ID())
			case "sync":
				return fmt.Sprintf("sync(%v)", world.SpecIDs(in.Op.List))
			}
			return fmt.Sprintf("refilter(%v, %s)", world.SpecIDs(in.Op.List), in.Op.Filter.String())
		},
	}
}

var linStats = map[string]int{}

// postC15 runs outside the simulation (porcupine uses real goroutines).
func postC15(sci interface{}) (string, string) {
	hist := lastHistory
	if len(hist) == 0 {
		return "", ""
	}
	var ops []porcupine.Operation
	maxT := int64(0)
	for _, h := range hist {
		if h.Call > maxT {
			maxT = h.Call
		}
		if h.Ret > maxT {
			maxT = h.Ret
		}
	}
	for _, h := range hist {
		ret := h.Ret
		if !h.Finished {
			ret = maxT + 1
		}
		ops = append(ops, porcupine.Operation{ClientId: h.Client, Input: h.In, Call: h.Call, Output: h.Out, Return: ret})
	}
	res := porcupine.CheckOperationsTimeout(linModel(), ops, 10*time.Second)
	switch res {
	case porcupine.Ok:
		linStats["ok"]++
		return "", ""
	case porcupine.Unknown:
		linStats["unknown"]++
		return "", "" // inconclusive: never reported
	}
	linStats["illegal"]++
	var lines []string
	sort.Slice(hist, func(i, j int) bool { return hist[i].Call < hist[j].Call })
	m := linModel()
	for _, h := range hist {
		lines = append(lines, fmt.Sprintf("  client %d [%d,%d] %s", h.Client, h.Call, h.Ret, m.DescribeOperation(h.In, h.Out)))
	}
	return "not-linearizable", "the recorded history of concurrent cache operations has no linearization consistent with the reference cache:\n" + strings.Join(lines, "\n")
}

func init() {
	Registry["C15"] = &Family{
		Gen:  genC15,
		New:  func() interface{} { return &Linear{} },
		Run:  runC15,
		Post: postC15,
		Sim:  func(sc interface{}) SimCfg { return sc.(*Linear).Sim },
		Describe: func(sci interface{}) string {
			sc := sci.(*Linear)
			n := 0
			for _, w := range sc.Writers {
				n += len(w)
			}
			r := 0
			for _, x := range sc.Readers {
				r += len(x)
			}
			return fmt.Sprintf("filter=%s writers=%d (%d ops) readers=%d (%d reads)", sc.Filter.String(), len(sc.Writers), n, len(sc.Readers), r)
		},
		Nontrivial: func(sci interface{}, res *detsim.Result) bool {
			sc := sci.(*Linear)
			return len(sc.Writers) > 0 && len(sc.Readers) > 0 && res.Contended > 10
		},
	}
	_ = rand.Int
}
