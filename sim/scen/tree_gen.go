package scen

import (
	"math/rand"
	"strconv"

	"detsim"
	"kcsim/world"
)

func writeAct(rng *rand.Rand, nkeys int) TAct {
	ns, name := randKey(rng, nkeys)
	if rng.Intn(4) == 0 {
		return TAct{Op: "delete", NS: ns, Name: name}
	}
	return TAct{Op: "apply", NS: ns, Name: name, Labels: randLabels(rng)}
}

// pickFilter: mostly filters that accept a good part of the universe
func pickFilter(rng *rand.Rand) world.FilterSpec {
	if rng.Intn(3) == 0 {
		return randFilter(rng)
	}
	return []world.FilterSpec{{Op: "null"}, {Op: "labels2", V: "|"}, {Op: "not", Sub: []world.FilterSpec{{Op: "labels", K: "app", V: "b"}}}, {Op: "nsnames", V: "n1/,n2/,/a,/b"}}[rng.Intn(4)]
}

// quietMs: the length of a quiet period - minutes when nothing relists,
// otherwise bounded by a few dozen refresh cycles (every relist costs steps).
func quietMs(rng *rand.Rand, periodMs int) int {
	if periodMs <= 0 {
		return pickInt(rng, 1100, 5500, 16000, 61000, 600000)
	}
	q := pickInt(rng, 1100, 5500, 16000, 31000)
	if q > 40*periodMs {
		q = 40 * periodMs
	}
	return q
}

func baseTree(g GenCtx) (*Tree, *rand.Rand) {
	rng := g.Rng
	sc := &Tree{Prop: g.Prop, Bufsiz: 100}
	sc.Sim = SimCfg{Strategy: randStrategy(rng, libGoroutines), NewTimers: rng.Intn(4) == 0, PermuteMaps: true, MaxSteps: 120000, EstSteps: 4000}
	sc.Sim.Strategy.StallMaxMs = 1500
	sc.LogYield = rng.Intn(4) == 0
	sc.ShareHB = rng.Intn(2) == 0
	sc.BaseRV = world.BaseRVs[rng.Intn(len(world.BaseRVs))]
	return sc, rng
}

// treeBuilder keeps track of node indexes while a script is generated.
type treeBuilder struct {
	sc         *Tree
	kinds      []string
	parents    []int
	depth      []int
	publishers []int // indexes of nodes that can have children
	filtered   []int
	subs       []int
}

// addAs: like add, for an act other than mknode that creates exactly one node.
func (b *treeBuilder) addAs(op string, parent int, kind string, a TAct) int {
	id := b.add(parent, kind, a)
	b.sc.Acts[len(b.sc.Acts)-1].Op = op
	return id
}

func (b *treeBuilder) add(parent int, kind string, a TAct) int {
	a.Op = "mknode"
	a.Node = parent
	a.Kind = kind
	b.sc.Acts = append(b.sc.Acts, a)
	id := len(b.kinds)
	b.kinds = append(b.kinds, kind)
	b.parents = append(b.parents, parent)
	d := 1
	if parent >= 0 {
		d = b.depth[parent] + 1
	}
	b.depth = append(b.depth, d)
	switch kind {
	case "clone", "clonef", "cloneff":
		b.publishers = append(b.publishers, id)
	}
	switch kind {
	case "subf", "subff", "clonef", "cloneff":
		b.filtered = append(b.filtered, id)
	}
	switch kind {
	case "sub", "subf", "subff":
		b.subs = append(b.subs, id)
	}
	return id
}

func (b *treeBuilder) randParent(rng *rand.Rand, maxDepth int) int {
	var cands []int
	cands = append(cands, -1)
	for _, p := range b.publishers {
		if b.depth[p] < maxDepth {
			cands = append(cands, p)
		}
	}
	return cands[rng.Intn(len(cands))]
}

// ---------------------------------------------------------------- C05

func genC05(g GenCtx) interface{} {
	sc, rng := baseTree(g)
	sc.NoOverflow = true
	sc.GetCheck = true
	sc.PeriodMs = pickInt(rng, 0, 0, 0, 200, 1000)
	nkeys := 1 + rng.Intn(4)
	sc.Init = genInit(rng, nkeys)
	b := &treeBuilder{sc: sc}
	b.add(-1, "sub", TAct{Reader: "eager"}) // the witness
	nNodes := 1 + rng.Intn(8)
	if rng.Intn(12) == 0 {
		nNodes = 12 + rng.Intn(30) // many subscribers on few publishers
	}
	if rng.Intn(12) == 0 {
		sc.Init = append(sc.Init, bulkInit(rng, bulkSize(rng))...)
	}
	nWrites := rng.Intn(60)
	late := rng.Intn(2) == 0
	marathon := g.Tier == "thorough" && g.Idx%40000 == 4321
	mk := func() {
		p := b.randParent(rng, 3)
		switch {
		case rng.Intn(3) == 0 && len(b.publishers) < 4:
			b.add(p, "clone", TAct{})
		case rng.Intn(6) == 0:
			// a filtered sibling: whatever it does to the events it is handed must
			// not show in what the plain subscribers of the same tree receive
			b.add(p, pick(rng, "subf", "clonef"), TAct{Filter: randFilter(rng), Reader: "eager"})
		default:
			b.add(p, "sub", TAct{Reader: "eager"})
		}
	}
	if !late {
		for i := 0; i < nNodes; i++ {
			mk()
		}
		nNodes = 0
	}
	if marathon {
		// (thorough tier only: ~2.5 million steps) 66 000 subscribe/close cycles on
		// the root publisher behind the witness and the first nodes, then traffic
		sc.Acts = append(sc.Acts, TAct{Op: "marathon", Node: -1, Ms: 66000}, TAct{Op: "settle"})
		sc.Sim.MaxSteps = 8000000
		sc.PeriodMs = 0
	}
	inflight := 0
	// object identity: in a tenth of the runs the server is an in-memory store
	// that keeps one object per key, changes it in place and sends the same
	// pointer again; every write is drained before the next (nobody may still
	// hold an older state of an object that is about to change under them)
	sc.Reuse = rng.Intn(10) == 0
	for i := 0; i < nWrites; i++ {
		sc.Acts = append(sc.Acts, writeAct(rng, nkeys))
		inflight++
		if sc.Reuse || inflight >= 20 || rng.Intn(6) == 0 {
			sc.Acts = append(sc.Acts, TAct{Op: "settle"})
			inflight = 0
			if rng.Intn(8) == 0 {
				// a quiet period of seconds to minutes (simulated time is free):
				// idle timers, watchdogs and keep-alives get their chance to fire
				sc.Acts = append(sc.Acts, TAct{Op: "sleep", Ms: quietMs(rng, sc.PeriodMs)})
			}
		}
		if nNodes > 0 && rng.Intn(4) == 0 {
			mk()
			nNodes--
		}
		if len(b.kinds) > 2 && rng.Intn(12) == 0 {
			// a sibling leaves mid-stream (never the witness): everybody else must not notice
			sc.Acts = append(sc.Acts, TAct{Op: "close", Node: 1 + rng.Intn(len(b.kinds)-1), Async: rng.Intn(2) == 0})
		}
		if rng.Intn(15) == 0 {
			sc.Acts = append(sc.Acts, TAct{Op: "check"})
			inflight = 0
		}
		if !marathon && rng.Intn(40) == 0 {
			sc.Acts = append(sc.Acts, TAct{Op: "crowd", Ms: 2 + rng.Intn(7)})
		}
	}
	if !marathon && rng.Intn(6) == 0 {
		sc.Acts = append(sc.Acts, TAct{Op: "crowd", Ms: 2 + rng.Intn(15)})
	}
	if !marathon && !sc.Reuse && rng.Intn(4) == 0 {
		// (not with the in-place server: it must not change an object somebody may still hold)
		// the controller is closed with a burst still on its way through the tree
		// (which has at least one subscriber two hops further down than the witness)
		c1 := b.add(-1, "clone", TAct{})
		c2 := b.add(c1, "clone", TAct{})
		b.add(c2, "sub", TAct{Reader: "eager"})
		sc.Acts = append(sc.Acts, TAct{Op: "settle"})
		for i := 1 + rng.Intn(20); i > 0; i-- {
			sc.Acts = append(sc.Acts, writeAct(rng, nkeys))
		}
		sc.Acts = append(sc.Acts, TAct{Op: "close", Node: -1})
	}
	sc.Sim.Strategy.StallPermille = 0
	return sc
}

// ---------------------------------------------------------------- C06

// sameRefilters: equal-filter Refilter calls (joins issue them all the time)
// sprinkled into a script, also right behind writes whose events are in flight.
func sameRefilters(rng *rand.Rand, sc *Tree, share int) {
	var filtered []int
	id := 0
	var out []TAct
	for _, a := range sc.Acts {
		if a.Op == "refilter" && rng.Intn(share) == 0 {
			a.Same = true
		}
		out = append(out, a)
		if a.Op == "mknode" {
			switch a.Kind {
			case "subf", "subff", "clonef", "cloneff":
				filtered = append(filtered, id)
			}
			id++
		}
		if (a.Op == "apply" || a.Op == "delete") && len(filtered) > 0 && rng.Intn(share) == 0 {
			out = append(out, TAct{Op: "refilter", Node: filtered[rng.Intn(len(filtered))], Same: true, Async: rng.Intn(2) == 0})
		}
	}
	sc.Acts = out
}

// passersBy: short-lived plain subscribers that come and go on the publishers
// of a script while its writes are in flight.
func passersBy(rng *rand.Rand, sc *Tree, share int) {
	pubs := []int{-1}
	id := 0
	var out []TAct
	for _, a := range sc.Acts {
		out = append(out, a)
		if a.Op == "mknode" {
			switch a.Kind {
			case "clone", "clonef":
				pubs = append(pubs, id)
			}
			id++
		}
		if (a.Op == "apply" || a.Op == "delete") && rng.Intn(share) == 0 {
			out = append(out, TAct{Op: "passerby", Node: pubs[rng.Intn(len(pubs))], Ms: rng.Intn(4)})
		}
	}
	sc.Acts = out
}

func genC06(g GenCtx) interface{} {
	sc := genC06base(g).(*Tree)
	if g.Idx%4 == 2 {
		sameRefilters(g.Rng, sc, 4)
	}
	if g.Idx%4 == 1 {
		passersBy(g.Rng, sc, 2)
	}
	return sc
}

func genC06base(g GenCtx) interface{} {
	sc, rng := baseTree(g)
	sc.PeriodMs = pickInt(rng, 0, 0, 50, 200, 1000)
	sc.Bufsiz = pickInt(rng, 100, 100, 100, 8)
	sc.NoOverflow = sc.Bufsiz >= 100
	if rng.Intn(3) == 0 {
		sc.Filter = randFilter(rng)
	}
	nkeys := 1 + rng.Intn(4)
	sc.Init = genInit(rng, nkeys)
	sc.HoldFirstList = rng.Intn(4) == 0
	if rng.Intn(12) == 0 {
		sc.Init = append(sc.Init, bulkInit(rng, bulkSize(rng))...)
		sc.Bufsiz = 100
		sc.NoOverflow = false // a refilter over hundreds of objects is one batch larger than any buffer
	}
	if g.Idx%16 == 11 {
		// deferred nodes that wait for their first filter through more parent
		// events than a buffer holds (in bursts a healthy pipeline absorbs: nothing
		// may overflow anywhere), with keys that come and go meanwhile
		sc.Bufsiz, sc.NoOverflow, sc.PeriodMs, sc.HoldFirstList = 100, true, 0, false
		sc.Filter = world.FilterSpec{}
		sc.Init = genInit(rng, nkeys)
		b := &treeBuilder{sc: sc}
		b.add(-1, "sub", TAct{Reader: "eager"})
		var deferred []int
		deferred = append(deferred, b.add(-1, "subff", TAct{Reader: "eager"}))
		c := b.add(-1, "cloneff", TAct{})
		deferred = append(deferred, c)
		b.add(c, "sub", TAct{Reader: "eager"})
		if rng.Intn(2) == 0 {
			pc := b.add(-1, "clone", TAct{})
			deferred = append(deferred, b.add(pc, "subff", TAct{Reader: "eager"}))
		}
		in := 0
		for i := 105 + rng.Intn(60); i > 0; i-- {
			sc.Acts = append(sc.Acts, writeAct(rng, nkeys))
			in++
			if in >= 12 {
				sc.Acts = append(sc.Acts, TAct{Op: "settle"})
				in = 0
			}
		}
		sc.Acts = append(sc.Acts, TAct{Op: "check"})
		for _, d := range deferred {
			sc.Acts = append(sc.Acts, TAct{Op: "refilter", Node: d, Filter: pickFilter(rng)})
		}
		sc.Acts = append(sc.Acts, TAct{Op: "settle"}, TAct{Op: "check"}, writeAct(rng, nkeys), TAct{Op: "check"})
		sc.Sim.Strategy.StallPermille = 0
		sc.Sim.MaxSteps = 400000
		return sc
	}
	b := &treeBuilder{sc: sc}
	nNodes := 1 + rng.Intn(6)
	mk := func() {
		p := b.randParent(rng, 3)
		switch r := rng.Intn(10); {
		case r < 3:
			b.add(p, "subf", TAct{Filter: randFilter(rng), Reader: "eager", Stateful: rng.Intn(5) == 0})
		case r < 5:
			b.add(p, "subff", TAct{Reader: "eager"})
		case r < 7:
			b.add(p, "clonef", TAct{Filter: randFilter(rng), Stateful: rng.Intn(5) == 0})
		case r < 8:
			b.add(p, "cloneff", TAct{})
		case r < 9:
			b.add(p, "clone", TAct{})
		default:
			b.add(p, "sub", TAct{Reader: "eager"})
		}
	}
	for i := 0; i < nNodes; i++ {
		mk()
	}
	released := !sc.HoldFirstList
	n := rng.Intn(40)
	if rng.Intn(20) == 0 {
		n = 150 + rng.Intn(250) // many refilters / writes on the same nodes
		sc.Sim.MaxSteps = 1500000
	}
	inflight := 0
	for i := 0; i < n; i++ {
		switch r := rng.Intn(10); {
		case r < 5:
			sc.Acts = append(sc.Acts, writeAct(rng, nkeys))
			inflight++
		case r < 8 && len(b.filtered) > 0:
			sc.Acts = append(sc.Acts, TAct{Op: "refilter", Node: b.filtered[rng.Intn(len(b.filtered))], Filter: randFilter(rng), Async: rng.Intn(3) == 0})
		case r < 9:
			sc.Acts = append(sc.Acts, TAct{Op: "sleep", Ms: pickInt(rng, 0, 1, 20, 300, 300, quietMs(rng, sc.PeriodMs))})
		default:
			if len(b.kinds) < 10 {
				mk()
			}
		}
		if !released && rng.Intn(5) == 0 {
			sc.Acts = append(sc.Acts, TAct{Op: "release"})
			released = true
		}
		if inflight >= 15 || rng.Intn(8) == 0 {
			if released {
				sc.Acts = append(sc.Acts, TAct{Op: "check"})
			}
			inflight = 0
		}
	}
	if !released {
		sc.Acts = append(sc.Acts, TAct{Op: "release"})
	}
	// deferred nodes get at least one filter with probability 3/4
	for _, f := range b.filtered {
		if (b.kinds[f] == "subff" || b.kinds[f] == "cloneff") && rng.Intn(4) > 0 {
			sc.Acts = append(sc.Acts, TAct{Op: "refilter", Node: f, Filter: randFilter(rng)})
		}
	}
	sc.Sim.Strategy.StallPermille = pickInt(rng, 0, 0, 5)
	return sc
}

// ---------------------------------------------------------------- C10

func genC10(g GenCtx) interface{} {
	sc, rng := baseTree(g)
	sc.Bufsiz = pickInt(rng, 2, 3, 4, 8, 16, 100)
	sc.PeriodMs = pickInt(rng, 0, 0, 500)
	nkeys := 1 + rng.Intn(4)
	sc.Init = genInit(rng, nkeys)
	b := &treeBuilder{sc: sc}
	b.add(-1, "sub", TAct{Reader: "eager"}) // healthy witness
	var stalledSubs []int
	nNodes := 1 + rng.Intn(7)
	for i := 0; i < nNodes; i++ {
		p := b.randParent(rng, 3)
		switch r := rng.Intn(12); {
		case r < 3:
			stalledSubs = append(stalledSubs, b.add(p, "sub", TAct{Reader: "stalled"}))
		case r < 4:
			b.add(p, "sub", TAct{Reader: "slow", SlowMs: pickInt(rng, 1, 50, 2000)})
		case r < 6:
			b.add(p, "sub", TAct{Reader: "eager"})
		case r < 7:
			b.add(p, "subf", TAct{Filter: randFilter(rng), Reader: pick(rng, "stalled", "eager")})
		case r < 9:
			b.add(p, pick(rng, "clone", "clonef"), TAct{Filter: randFilter(rng)})
		case r < 11:
			b.add(p, "monitor", TAct{Block: rng.Intn(2) == 0, HandlerMs: pickInt(rng, 0, 0, 100)})
		default:
			b.add(p, "sub", TAct{Reader: "eager"})
		}
	}
	// stream: 0 .. 5 x buffer, in bursts of at most Bufsiz/4 separated by quiescence
	total := rng.Intn(5*sc.Bufsiz + 1)
	if total > 120 {
		total = 120
	}
	burst := sc.Bufsiz / 4
	if burst < 1 {
		burst = 1
	}
	in := 0
	for i := 0; i < total; i++ {
		sc.Acts = append(sc.Acts, writeAct(rng, nkeys))
		if len(b.filtered) > 0 && rng.Intn(6) == 0 {
			// a Refilter is a batch of events: it must not block on (or be torn by) a nearly full consumer buffer
			sc.Acts = append(sc.Acts, TAct{Op: "refilter", Node: b.filtered[rng.Intn(len(b.filtered))], Filter: randFilter(rng), Async: rng.Intn(2) == 0})
		}
		if nNodes > 0 && rng.Intn(40) == 0 {
			// a consumer (stalled or not) is closed while the stream goes on: its
			// siblings must not lose anything in the moment it is being removed
			sc.Acts = append(sc.Acts, TAct{Op: "close", Node: 1 + rng.Intn(nNodes), Async: rng.Intn(2) == 0})
		}
		in++
		if in >= burst {
			sc.Acts = append(sc.Acts, TAct{Op: "settle"})
			in = 0
			if rng.Intn(10) == 0 {
				sc.Acts = append(sc.Acts, TAct{Op: "check"})
			}
			if rng.Intn(12) == 0 {
				// the stream pauses for seconds to minutes while consumers stay stalled
				sc.Acts = append(sc.Acts, TAct{Op: "sleep", Ms: quietMs(rng, sc.PeriodMs)})
			}
			if len(stalledSubs) > 0 && rng.Intn(5) == 0 {
				// a slow consumer catches up by a few events and stalls again: from
				// then on it has exactly that much more room
				sc.Acts = append(sc.Acts, TAct{Op: "drain-some", Node: stalledSubs[rng.Intn(len(stalledSubs))], Ms: pickInt(rng, 1, 1, 2, 3, sc.Bufsiz/4+1, sc.Bufsiz/2, sc.Bufsiz-1)})
			}
		}
	}
	if sc.Bufsiz <= 16 && rng.Intn(4) == 0 {
		// a consumer that never reads gives up at the very moment its buffer has
		// filled for the first time, with the next event already on its way
		id := b.add(-1, "sub", TAct{Reader: "stalled"})
		sc.Acts = append(sc.Acts, TAct{Op: "settle"})
		ns, name := randKey(rng, nkeys)
		apply := func() TAct { return TAct{Op: "apply", NS: ns, Name: name, Labels: randLabels(rng)} }
		for i := 0; i < sc.Bufsiz; i++ {
			sc.Acts = append(sc.Acts, apply())
			if (i+1)%burst == 0 {
				sc.Acts = append(sc.Acts, TAct{Op: "settle"})
			}
		}
		if rng.Intn(2) == 0 {
			sc.Acts = append(sc.Acts, TAct{Op: "settle"}, apply(), TAct{Op: "close", Node: id, Async: true}, apply(), TAct{Op: "settle"})
		} else {
			// ... or wakes up at that very moment and reads everything, while the
			// overrun of the next event is being reported
			sc.LogYield = true
			sc.Acts = append(sc.Acts, TAct{Op: "settle"}, apply(), TAct{Op: "drain-racing", Node: id, Ms: rng.Intn(60)}, apply(), apply(), TAct{Op: "settle"})
		}
	}
	sc.Acts = append(sc.Acts, TAct{Op: "check"})
	// no starvation strategies here: a starved publisher overflows its own feed,
	// which is not what the property is about
	sc.Sim.Strategy = detsim.Strategy{Kind: pick(rng, "uniform", "uniform", "sticky"), StickyPct: 60}
	return sc
}

// ---------------------------------------------------------------- C11 / C12

func mixedNode(b *treeBuilder, rng *rand.Rand, maxDepth int) {
	p := b.randParent(rng, maxDepth)
	switch r := rng.Intn(12); {
	case r < 2:
		b.add(p, "sub", TAct{Reader: "eager"})
	case r < 4:
		b.add(p, "subf", TAct{Filter: randFilter(rng), Reader: "eager"})
	case r < 5:
		b.add(p, "subff", TAct{Reader: "eager"})
	case r < 7:
		b.add(p, "clone", TAct{})
	case r < 9:
		b.add(p, "clonef", TAct{Filter: randFilter(rng)})
	case r < 10:
		b.add(p, "cloneff", TAct{})
	default:
		b.add(p, "monitor", TAct{HandlerMs: pickInt(rng, 0, 0, 10), SelfClose: pickInt(rng, 0, 0, 0, 1, 2, 5), CbAct: pick(rng, "", "", "close-self", "close-parent", "close-root", "list", "subscribe")})
	}
}

func genC11(g GenCtx) interface{} {
	if g.Idx%16 == 9 {
		// several independent trees and a join across them, one of them dead (or
		// dying alone) when the join is built
		j := genJoin(g, joinKinds[(g.Idx/16)%len(joinKinds)], false)
		if g.Rng.Intn(2) == 0 {
			j.DeadBase, j.SrcCancelAtStep = pick(g.Rng, "src", "mid", "dst", "dst"), 0
		} else {
			// ... or all alive, and the join alone is closed (1..4 times over): exactly
			// what it created stops, and ALL of it - the goroutine population of the
			// long-lived controllers is what it was before
			j.DeadBase, j.SrcCancelAtStep, j.Cycles = "", 0, 1+g.Rng.Intn(3)
		}
		return &Tree{Prop: g.Prop, Join: j}
	}
	sc, rng := baseTree(g)
	sc.PeriodMs = pickInt(rng, 0, 0, 100, 1000)
	sc.ListLatMs = [2]int{pickInt(rng, 0, 0, 20), pickInt(rng, 0, 0, 20)}
	nkeys := 1 + rng.Intn(4)
	sc.Init = genInit(rng, nkeys)
	sc.HoldFirstList = rng.Intn(5) == 0
	b := &treeBuilder{sc: sc}
	nNodes := 2 + rng.Intn(8)
	for i := 0; i < nNodes; i++ {
		mixedNode(b, rng, 4)
	}
	if !sc.HoldFirstList && rng.Intn(8) == 0 {
		// churn: 5..40 consumers come and go below the same publisher while
		// events flow - whatever a publisher keeps per subscription (sets, cached
		// delivery lists, counters) must still be right after the N-th one
		p := b.randParent(rng, 3)
		for c := 5 + rng.Intn(36); c > 0; c-- {
			var id int
			switch rng.Intn(5) {
			case 0:
				id = b.add(p, "subf", TAct{Filter: randFilter(rng), Reader: "eager"})
			case 1:
				id = b.add(p, "clone", TAct{})
			case 2:
				id = b.add(p, "monitor", TAct{})
			default:
				id = b.add(p, "sub", TAct{Reader: pick(rng, "eager", "eager", "stalled")})
			}
			for w := rng.Intn(3); w > 0; w-- {
				sc.Acts = append(sc.Acts, writeAct(rng, nkeys))
			}
			sc.Acts = append(sc.Acts, TAct{Op: "close", Node: id, Async: rng.Intn(3) == 0})
			if rng.Intn(6) == 0 {
				sc.Acts = append(sc.Acts, TAct{Op: "settle"}, TAct{Op: "check"})
			}
		}
		sc.Sim.MaxSteps = 400000
	}
	if !sc.HoldFirstList && rng.Intn(8) == 0 {
		// a filtered subscription whose consumer does not read is refiltered so
		// that more objects leave its view than its buffer has room for - and is
		// shut down, from any level, in that state
		sc.Bufsiz, sc.NoOverflow = pickInt(rng, 2, 3, 4), false
		for k := 0; k < 6; k++ {
			sc.Init = append(sc.Init, world.Spec{NS: "flood", Name: string(rune('a' + k)), Labels: randLabels(rng)})
		}
		id := b.add(b.randParent(rng, 3), "subf", TAct{Filter: world.FilterSpec{}, Reader: "stalled"})
		sc.Acts = append(sc.Acts, TAct{Op: "settle"}, TAct{Op: "refilter", Node: id, Filter: world.FilterSpec{Op: "all"}, Async: true})
	}
	deaf := !sc.HoldFirstList && rng.Intn(12) == 0
	if deaf {
		// the client ignores its context: one List call (the first or a relist)
		// stays out until the very end, and the root is closed while it does
		sc.PeriodMs = pickInt(rng, 50, 100)
		sc.ListScript = map[string]string{strconv.Itoa(1 + rng.Intn(3)): "hang-deaf"}
	}
	n := rng.Intn(30)
	closeAt := rng.Intn(n + 1)
	released := !sc.HoldFirstList
	for i := 0; i <= n; i++ {
		if i == closeAt && deaf {
			sc.Acts = append(sc.Acts, TAct{Op: "sleep", Ms: 4 * sc.PeriodMs}, TAct{Op: "close", Node: -1})
		} else if i == closeAt {
			// the one node being closed: any node, or the root by any mechanism
			switch r := rng.Intn(10); {
			case r < 6:
				sc.Acts = append(sc.Acts, TAct{Op: "close", Node: rng.Intn(len(b.kinds)), Async: rng.Intn(2) == 0})
			case r < 8:
				sc.Acts = append(sc.Acts, TAct{Op: "close", Node: -1, Async: rng.Intn(2) == 0})
			default:
				sc.Acts = append(sc.Acts, TAct{Op: "cancelctx"})
			}
		}
		if i == n {
			break
		}
		switch r := rng.Intn(10); {
		case r < 6:
			sc.Acts = append(sc.Acts, writeAct(rng, nkeys))
		case r < 7 && len(b.filtered) > 0:
			sc.Acts = append(sc.Acts, TAct{Op: "refilter", Node: b.filtered[rng.Intn(len(b.filtered))], Filter: randFilter(rng), Async: rng.Intn(2) == 0})
		case r < 8:
			sc.Acts = append(sc.Acts, TAct{Op: "sleep", Ms: pickInt(rng, 0, 1, 50, 1200, 1200, quietMs(rng, sc.PeriodMs))})
		case r < 9:
			sc.Acts = append(sc.Acts, TAct{Op: "settle"})
		default:
			if len(b.kinds) < 12 {
				mixedNode(b, rng, 4)
			}
		}
		if !released && rng.Intn(4) == 0 {
			sc.Acts = append(sc.Acts, TAct{Op: "release"})
			released = true
		}
	}
	if !released {
		sc.Acts = append(sc.Acts, TAct{Op: "release"})
	}
	for _, f := range b.filtered {
		if (b.kinds[f] == "subff" || b.kinds[f] == "cloneff") && rng.Intn(2) == 0 {
			sc.Acts = append(sc.Acts, TAct{Op: "refilter", Node: f, Filter: randFilter(rng)})
		}
	}
	sc.CloseAtEnd = rng.Intn(2) == 0
	if deaf {
		for i := range sc.Acts {
			sc.Acts[i].SelfClose = 0 // (a callback that closes the root would wait for the client, too)
		}
	}
	return sc
}

func genC12(g GenCtx) interface{} {
	sc, rng := baseTree(g)
	sc.PeriodMs = pickInt(rng, 0, 50, 100, 1000)
	p := sc.PeriodMs
	if p == 0 {
		p = 100
	}
	sc.ListLatMs = [2]int{pickInt(rng, 0, 0, p/2, p), pickInt(rng, 0, 0, p/2, 2*p)}
	if rng.Intn(12) == 0 {
		// "no periodic resync" spelled as a zero or negative period
		sc.ZeroPeriod, sc.ZeroPeriodNs, sc.PeriodMs = true, int64(pickInt(rng, 0, 0, -1, -1000000000)), 1
		sc.ListLatMs = [2]int{pickInt(rng, 3, 10), pickInt(rng, 2, 20)}
		sc.Sim.MaxSteps = 600000
	}
	sc.Bufsiz = pickInt(rng, 100, 100, 4)
	nkeys := 1 + rng.Intn(4)
	sc.Init = genInit(rng, nkeys)
	sc.Faults = map[string]world.Fault{}
	for _, k := range []string{"watch-connect-error", "watch-connect-timeout", "watch-connect-hang", "watch-connect-delay", "watch-close-mid", "watch-close-idle", "list-hang",
		"watch-status-frame", "watch-expired-frame", "watch-connect-expired", "watch-connect-canceled-error", "watch-connect-api-error", "watch-badobj", "watch-bookmark", "watch-dup"} {
		if rng.Intn(4) == 0 {
			sc.Faults[k] = world.Fault{Budget: 1 + rng.Intn(2), Denom: 2 + rng.Intn(4)}
		}
	}
	switch rng.Intn(8) {
	case 0:
		sc.WatchMode = "hang"
	case 1:
		sc.WatchMode = "error"
	}
	b := &treeBuilder{sc: sc}
	nNodes := rng.Intn(7)
	for i := 0; i < nNodes; i++ {
		mixedNode(b, rng, 4)
	}
	n := rng.Intn(25)
	for i := 0; i < n; i++ {
		switch r := rng.Intn(12); {
		case r < 6:
			sc.Acts = append(sc.Acts, writeAct(rng, nkeys))
		case r < 7 && len(b.filtered) > 0:
			sc.Acts = append(sc.Acts, TAct{Op: "refilter", Node: b.filtered[rng.Intn(len(b.filtered))], Filter: randFilter(rng), Async: true})
		case r < 9:
			sc.Acts = append(sc.Acts, TAct{Op: "sleep", Ms: pickInt(rng, 0, 1, p/2, p, 1100)})
		case r < 11:
			sc.Acts = append(sc.Acts, TAct{Op: "api", Async: rng.Intn(2) == 0})
		default:
			if len(b.kinds) < 10 {
				mixedNode(b, rng, 4)
			}
		}
	}
	// shutdown-point: a drawn step index over the estimated length of the run
	est := 60 + 45*len(b.kinds) + 40*n
	sc.Trigger = &Trigger{AtStep: rng.Intn(est + 1), Kind: pick(rng, "close", "close", "close3", "cancel")}
	if g.Idx%4 == 0 {
		// systematic part of the sweep: positions one by one (quick: the first
		// 400 steps, thorough: the first 4000)
		span := 400
		if g.Tier == "thorough" {
			span = 4000
		}
		sc.Trigger.AtStep = (g.Idx / 4) % span
	}
	if g.Idx%128 == 77 && !sc.ZeroPeriod {
		// a crowd: hundreds of live subscriptions on one publisher when it shuts
		// down (a fan-out server with one subscription per client)
		p := b.randParent(rng, 2)
		for i := pickInt(rng, 130, 260, 300, 520); i > 0; i-- {
			b.add(p, "sub", TAct{Reader: pick(rng, "eager", "stalled", "stalled")})
		}
		sc.Sim.MaxSteps = 1500000
		est += 4 * len(b.kinds)
		sc.Trigger = &Trigger{AtStep: est/2 + rng.Intn(est), Kind: pick(rng, "close", "cancel")}
	}
	if g.Idx%16 == 9 && !sc.ZeroPeriod {
		// a relist that differs from the cache by hundreds of objects (the watch
		// is connected but silent), with the shutdown request landing while the
		// controller is busy applying and distributing it
		sc.WatchMode = "silent"
		sc.Faults = map[string]world.Fault{}
		sc.PeriodMs = pickInt(rng, 50, 100)
		sc.ListLatMs = [2]int{0, pickInt(rng, 0, 5)}
		nb := pickInt(rng, 130, 200, 300, 400)
		sc.Acts = append(sc.Acts, TAct{Op: "bulk", Ms: nb}, TAct{Op: "sleep", Ms: 3 * sc.PeriodMs})
		// the big relist starts roughly one period after the bulk write, i.e.
		// after the steps of everything before it; its processing takes ~3 steps
		// per object and subscriber
		sc.Trigger = &Trigger{AtStep: est + rng.Intn(8*nb+200), Kind: pick(rng, "close", "close", "cancel")}
		sc.Sim.MaxSteps = 400000
	}
	sc.CloseAtEnd = true
	return sc
}

// ---------------------------------------------------------------- C14

var listFailKinds = []string{"error", "error-typed-nil", "error-with-list", "error-with-full-list", "error-timeout", "error-canceled", "error-canceled-bare", "error-deadline-bare", "error-notrunning", "error-notrunning-wrapped", "error-nilcause", "error-nilcause-with-list", "error-aggregate", "error-server-timeout", "error-gateway-timeout", "error-too-many-requests", "error-forbidden", "nonlist", "nonobjects", "noitems", "status-object", "unstructured-object", "nil"}

func genC14(g GenCtx) interface{} {
	sc, rng := baseTree(g)
	sc.PeriodMs = pickInt(rng, 50, 200, 1000)
	nkeys := 1 + rng.Intn(4)
	sc.Init = genInit(rng, nkeys)
	b := &treeBuilder{sc: sc}
	nNodes := rng.Intn(6)
	for i := 0; i < nNodes; i++ {
		mixedNode(b, rng, 3)
	}
	mode := g.Idx % 3
	switch mode {
	case 0, 1:
		// failure kind x position k, enumerated systematically
		j := g.Idx / 3
		kind := listFailKinds[j%len(listFailKinds)]
		k := 1 + (j/len(listFailKinds))%5
		sc.ListScript = map[string]string{strconv.Itoa(k): kind}
	default:
		// watch failures of every kind, never fatal
		sc.Faults = map[string]world.Fault{}
		for _, k := range []string{"watch-connect-error", "watch-connect-timeout", "watch-connect-canceled-error", "watch-connect-api-error", "watch-close-mid", "watch-close-after-burst", "watch-close-idle", "watch-status-frame", "watch-expired-frame", "watch-connect-expired", "watch-bookmark", "watch-badobj", "watch-drop", "watch-dup"} {
			if rng.Intn(2) == 0 {
				sc.Faults[k] = world.Fault{Budget: 1 + rng.Intn(3), Denom: 2 + rng.Intn(3)}
			}
		}
		if rng.Intn(4) == 0 {
			sc.WatchMode = pick(rng, "error", "silent")
		}
		sc.CloseAtEnd = true
	}
	n := rng.Intn(20)
	for i := 0; i < n; i++ {
		if rng.Intn(4) == 0 {
			sc.Acts = append(sc.Acts, TAct{Op: "sleep", Ms: pickInt(rng, 1, sc.PeriodMs/2, sc.PeriodMs, 1100)})
		} else {
			sc.Acts = append(sc.Acts, writeAct(rng, nkeys))
		}
	}
	return sc
}

// ---------------------------------------------------------------- C16

func genC16(g GenCtx) interface{} {
	sc, rng := baseTree(g)
	sc.PeriodMs = pickInt(rng, 0, 0, 200)
	sc.NoOverflow = true
	nkeys := 1 + rng.Intn(4)
	sc.Init = genInit(rng, nkeys)
	sc.HoldFirstList = rng.Intn(3) == 0
	b := &treeBuilder{sc: sc}
	b.add(-1, "sub", TAct{Reader: "eager"})
	nMon := 1 + rng.Intn(3)
	for i := 0; i < rng.Intn(3); i++ {
		p := b.randParent(rng, 2)
		b.add(p, pick(rng, "clone", "clonef"), TAct{Filter: randFilter(rng)})
	}
	var mons []int
	for i := 0; i < nMon; i++ {
		p := b.randParent(rng, 3)
		mons = append(mons, b.add(p, "monitor", TAct{NoInit: rng.Intn(6) == 0, HandlerMs: pickInt(rng, 0, 0, 1, 30), SelfClose: pickInt(rng, 0, 0, 0, 0, 1, 3, 8), CbAct: pick(rng, "", "", "close-self", "close-parent", "close-root", "list", "subscribe")}))
	}
	released := !sc.HoldFirstList
	n := rng.Intn(40)
	inflight := 0
	closed := false
	for i := 0; i < n; i++ {
		switch r := rng.Intn(14); {
		case r < 9:
			sc.Acts = append(sc.Acts, writeAct(rng, nkeys))
			inflight++
		case r < 10:
			sc.Acts = append(sc.Acts, TAct{Op: "sleep", Ms: pickInt(rng, 0, 1, 40, 40, 40, quietMs(rng, sc.PeriodMs))})
		case r < 11 && !closed:
			// close a monitor, its publisher, or the root - possibly before readiness
			closed = true
			switch rng.Intn(3) {
			case 0:
				m := mons[rng.Intn(len(mons))]
				sc.Acts = append(sc.Acts, TAct{Op: "close", Node: m})
				if rng.Intn(2) == 0 {
					// ... and the application re-attaches the very same Handler value
					// to a new monitor (after a reconnect, say)
					sc.Acts = append(sc.Acts, TAct{Op: "settle"})
					mons = append(mons, b.add(b.parents[m], "monitor", TAct{ReuseOf: m + 1}))
				}
			case 1:
				sc.Acts = append(sc.Acts, TAct{Op: "close", Node: -1})
			default:
				if len(b.publishers) > 0 {
					sc.Acts = append(sc.Acts, TAct{Op: "close", Node: b.publishers[rng.Intn(len(b.publishers))]})
				}
			}
		case r < 12 && len(mons) < 5:
			p := b.randParent(rng, 3)
			if rng.Intn(3) == 0 {
				// one Handler value on two monitors at once (plus a third monitor,
				// a node like any other, as their witness)
				sc.Acts = append(sc.Acts, TAct{Op: "settle"})
				inflight = 0
				mons = append(mons, b.addAs("shared-monitors", p, "monitor", TAct{Ms: pickInt(rng, 1, 5, 30)}))
				break
			}
			mons = append(mons, b.add(p, "monitor", TAct{HandlerMs: pickInt(rng, 0, 0, 5)}))
		default:
			if !released {
				sc.Acts = append(sc.Acts, TAct{Op: "release"})
				released = true
			}
		}
		if inflight >= 20 {
			sc.Acts = append(sc.Acts, TAct{Op: "settle"})
			inflight = 0
		}
	}
	if !released && rng.Intn(3) > 0 {
		sc.Acts = append(sc.Acts, TAct{Op: "release"})
	}
	sc.Sim.Strategy.StallPermille = 0
	return sc
}

func init() {
	Registry["C05"] = treeFamily(genC05)
	Registry["C06"] = treeFamily(genC06)
	Registry["C10"] = treeFamily(genC10)
	Registry["C11"] = treeFamily(genC11)
	Registry["C12"] = treeFamily(genC12)
	Registry["C14"] = treeFamily(genC14)
	Registry["C16"] = treeFamily(genC16)
}

// ---------------------------------------------------------------- C08

// The operation alphabet of C08; orders up to length 6 are enumerated
// systematically by the run index (6^6 orders), schedules inside are random.
var c08ops = []string{"release", "refilter-equal", "refilter-new", "write", "mknode", "settle"}

func genC08(g GenCtx) interface{} {
	sc, rng := baseTree(g)
	sc.HoldFirstList = true
	sc.PeriodMs = pickInt(rng, 0, 0, 300)
	sc.NoOverflow = true
	nkeys := 1 + rng.Intn(4)
	sc.Init = genInit(rng, nkeys)
	static := rng.Intn(2) == 0
	if rng.Intn(80) == 0 {
		// a large first list (Ready means: all of it was applied); a Refilter over
		// it is one batch larger than any buffer, so overflow is legitimate here
		sc.Init = append(sc.Init, bulkInit(rng, pickInt(rng, 300, 1030, 4100, 9000))...)
		sc.NoOverflow = false
		sc.Sim.MaxSteps = 600000
	}
	sc.Static = static
	// (only with a static server: a watch started "from now" may miss what was written since the list)
	sc.EmptyListRV = static && sc.PeriodMs == 0 && rng.Intn(3) == 0
	fail := g.Idx%7 == 6 // the first list fails in one run out of seven
	failKind := listFailKinds[(g.Idx/7)%len(listFailKinds)]
	b := &treeBuilder{sc: sc}
	// a fixed skeleton with every kind, immediate and deferred, at depth <= 3
	b.add(-1, "sub", TAct{Reader: "eager"})
	f0 := b.add(-1, "subf", TAct{Filter: randFilter(rng), Reader: "eager"})
	d0 := b.add(-1, "subff", TAct{Reader: "eager"})
	c1 := b.add(-1, pick(rng, "clonef", "cloneff", "clone"), TAct{Filter: randFilter(rng)})
	f2 := b.add(c1, "subf", TAct{Filter: randFilter(rng), Reader: "eager"})
	c2 := b.add(c1, pick(rng, "cloneff", "clonef"), TAct{Filter: randFilter(rng)})
	b.add(c2, pick(rng, "sub", "subff"), TAct{Reader: "eager"})
	_ = f0
	_ = d0
	_ = f2
	cur := map[int]world.FilterSpec{}
	for i, a := range sc.Acts {
		if a.Op == "mknode" {
			cur[i] = a.Filter
			if a.Kind == "subff" || a.Kind == "cloneff" {
				cur[i] = world.FilterSpec{Op: "all"}
			}
		}
	}
	// the order: digits of the run index in base 6
	k := g.Idx / 7
	var order []string
	for i := 0; i < 6; i++ {
		order = append(order, c08ops[k%6])
		k /= 6
	}
	released := false
	target := 0
	for _, op := range order {
		switch op {
		case "release":
			if !released {
				sc.Acts = append(sc.Acts, TAct{Op: "release", Block: fail, Kind: failKind})
				released = true
			}
		case "refilter-equal", "refilter-new":
			if len(b.filtered) == 0 {
				continue
			}
			n := b.filtered[target%len(b.filtered)]
			target++
			f := cur[n]
			if op == "refilter-new" {
				f = randFilter(rng)
				cur[n] = f
			}
			sc.Acts = append(sc.Acts, TAct{Op: "refilter", Node: n, Filter: f, Async: rng.Intn(3) == 0})
		case "write":
			if !static || !released {
				// static runs keep the server unchanged once it could matter
				for w := 1 + rng.Intn(3); w > 0; w-- {
					sc.Acts = append(sc.Acts, writeAct(rng, nkeys))
				}
			}
		case "mknode":
			mixedNode(b, rng, 3)
			if !static && released {
				// a node created under traffic: parent events race with its readiness
				sc.Acts = append(sc.Acts, writeAct(rng, nkeys))
			}
		case "settle":
			sc.Acts = append(sc.Acts, TAct{Op: "settle"})
		}
	}
	if !released {
		sc.Acts = append(sc.Acts, TAct{Op: "release", Block: fail, Kind: failKind})
	}
	// afterwards every deferred node gets a filter (3/4) and traffic resumes
	for _, f := range b.filtered {
		if (b.kinds[f] == "subff" || b.kinds[f] == "cloneff") && rng.Intn(4) > 0 {
			sc.Acts = append(sc.Acts, TAct{Op: "refilter", Node: f, Filter: randFilter(rng)})
		}
	}
	sc.Acts = append(sc.Acts, TAct{Op: "check"})
	sc.Acts = append(sc.Acts, TAct{Op: "unfreeze"})
	for i := rng.Intn(6); i > 0; i-- {
		sc.Acts = append(sc.Acts, writeAct(rng, nkeys))
	}
	sc.Acts = append(sc.Acts, TAct{Op: "check"})
	sc.Sim.Strategy.StallPermille = 0
	return sc
}

func init() {
	Registry["C08"] = treeFamily(genC08)
}
