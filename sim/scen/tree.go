package scen

import (
	"fmt"
	"sort"
	"strings"
	"time"

	metav1 "k8s.io/apimachinery/pkg/apis/meta/v1"

	"detsim"
	"kcsim/world"

	"github.com/boz/kcache"
)

// TAct is one action of the root script of a Tree scenario.
type TAct struct {
	Op        string            `json:"op"` // apply delete sleep settle check mknode refilter close release drain unblock cancelctx api
	NS        string            `json:"ns,omitempty"`
	Name      string            `json:"name,omitempty"`
	Labels    map[string]string `json:"labels,omitempty"`
	Ms        int               `json:"ms,omitempty"`
	Node      int               `json:"node,omitempty"` // target node (refilter/close/drain/unblock: index; mknode: parent, -1 = root controller)
	Kind      string            `json:"kind,omitempty"`
	Filter    world.FilterSpec  `json:"filter,omitempty"`
	Reader    string            `json:"reader,omitempty"`
	SlowMs    int               `json:"slow_ms,omitempty"`
	HandlerMs int               `json:"handler_ms,omitempty"`
	SelfClose int               `json:"self_close,omitempty"` // monitor: an API call (CbAct, default Close()) from inside its n-th callback
	CbAct     string            `json:"cb_act,omitempty"`
	Stateful  bool              `json:"stateful,omitempty"` // subf/clonef: the node's filter is one stateful user object, mutated and re-submitted by pointer
	ReuseOf   int               `json:"reuse_of,omitempty"` // monitor: > 0 = attach the Handler value of monitor node ReuseOf-1 (if that monitor is done)
	Same      bool              `json:"same,omitempty"` // refilter: submit the filter in force again (built anew)
	NoInit    bool              `json:"no_init,omitempty"` // monitor: the handler has no OnInitialize
	Block     bool              `json:"block,omitempty"`
	Async     bool              `json:"async,omitempty"`
}

// Trigger is a shutdown injected at a scheduler step (C11/C12).
type Trigger struct {
	AtStep int    `json:"at_step"`
	Kind   string `json:"kind"` // close | close3 | cancel | node
	Node   int    `json:"node"`
}

// Tree is the general scenario: a real controller over the simulated API
// server, a tree of consumers, a script, optional shutdown trigger.
type Tree struct {
	Prop          string                 `json:"prop"`
	Bufsiz        int                    `json:"bufsiz"`
	PeriodMs      int                    `json:"period_ms"`
	Filter        world.FilterSpec       `json:"filter"`
	Init          []world.Spec           `json:"init"`
	ListLatMs     [2]int                 `json:"list_lat_ms"`
	Faults        map[string]world.Fault `json:"faults"`
	ListScript    map[string]string      `json:"list_script"` // "k" -> outcome of the k-th list
	WatchMode     string                 `json:"watch_mode"`
	HoldFirstList bool                   `json:"hold_first_list"`
	StrayContinue bool                   `json:"stray_continue,omitempty"` // complete list replies carry a continue token nobody asked for
	// Join (C11 only): instead of one tree, several controllers and a join built
	// over them - shutdown does not travel sideways between independent trees
	Join *Join `json:"join,omitempty"`
	Acts          []TAct                 `json:"acts"`
	Trigger       *Trigger               `json:"trigger,omitempty"`
	CloseAtEnd    bool                   `json:"close_at_end"`
	Static        bool                   `json:"static"`      // C08: the server does not change while nodes become ready
	NoOverflow    bool                   `json:"no_overflow"` // premise: every consumer keeps its backlog below the buffer
	GetCheck      bool                   `json:"get_check"`
	LogYield      bool                   `json:"log_yield"`
	Reuse         bool                   `json:"reuse,omitempty"` // the server keeps one live object per key and mutates it in place
	ZeroPeriod    bool                   `json:"zero_period,omitempty"`    // the refresh period handed to the builder is ZeroPeriodNs (0 or negative); PeriodMs is 1 for the bookkeeping
	ZeroPeriodNs  int64                  `json:"zero_period_ns,omitempty"`
	EmptyListRV   bool                   `json:"empty_list_rv,omitempty"`
	BaseRV        int                    `json:"base_rv,omitempty"`
	ShareHB       bool                   `json:"share_hb,omitempty"` // monitors' handlers come from one reused HandlerBuilder
	Sim           SimCfg                 `json:"sim"`
}

// cycle: the refresh period as a length of time (a zero or negative period means "at once")
func (sc *Tree) cycle() time.Duration {
	if p := sc.period(); p > 0 {
		return p
	}
	return 0
}

func (sc *Tree) period() time.Duration {
	if sc.ZeroPeriod {
		// RefreshPeriod(0), or a negative one: the library relists back to back
		// (every list takes simulated time in these runs)
		return time.Duration(sc.ZeroPeriodNs)
	}
	if sc.PeriodMs <= 0 {
		return noRelist
	}
	return ms(sc.PeriodMs)
}

type treeRun struct {
	sc        *Tree
	h         *world.H
	srv       *world.Server
	triggered bool
	trigNode  *world.NodeRT
	trigRoot  bool
	listFailed bool
	asyncLeft int
	asyncDone chan struct{}
	apiCalls  int
	cancelled bool // the root context was cancelled at some point (Error() then reports it)
	failAt    int
	crowd     []*crowdMember
	shared    []*sharedHandler
}

// sharedHandler: ONE Handler value attached to two monitors that live at the
// same time (one logging handler for two controllers, say), next to a third
// monitor with a handler of its own, all three created at the same quiet moment
// on the same publisher.
type sharedHandler struct {
	parent  *world.NodeRT
	witness *world.NodeRT
	mons    [2]kcache.Monitor
	calls   map[string]int
	busy    int
}

func (t *treeRun) sharedBusy() bool {
	for _, sh := range t.shared {
		if sh.busy > 0 {
			return true
		}
	}
	return false
}

// crowdMember: one of several subscribers that subscribed to the root at the
// same moment, each from a goroutine of its own.
type crowdMember struct {
	sub kcache.Subscription
	got int
}

func (t *treeRun) node(i int) *world.NodeRT {
	if i < 0 || i >= len(t.h.Nodes) {
		return nil
	}
	return t.h.Nodes[i]
}

// expectDown: is the node expected to be shut down because of what the
// scenario did (closed itself, an ancestor closed, root down)?
func (t *treeRun) rootDown() bool {
	return t.trigRoot || t.listFailed
}

func isAncestorOrSelf(a, n *world.NodeRT) bool {
	for p := n; p != nil; p = p.Parent {
		if p == a {
			return true
		}
	}
	return false
}

// deafClient: some List call of this run is scripted to ignore its context
func (t *treeRun) deafClient() bool {
	for _, v := range t.sc.ListScript {
		if v == "hang-deaf" {
			return true
		}
	}
	return false
}

func (t *treeRun) closedByScenario(n *world.NodeRT) bool {
	if t.rootDown() {
		return true
	}
	for p := n; p != nil; p = p.Parent {
		if p.WeClosed {
			return true
		}
	}
	return false
}

func runTree(sci interface{}) {
	sc := sci.(*Tree)
	setBufsiz(sc.Bufsiz)
	srv := world.NewServer("pod")
	srv.SetBaseRV(sc.BaseRV)
	srv.Reuse = sc.Reuse
	srv.EmptyListRV = sc.EmptyListRV
	srv.F = world.NewFaults(sc.Faults)
	for k, v := range sc.ListScript {
		n := 0
		fmt.Sscanf(k, "%d", &n)
		if n > 0 {
			srv.F.ListScript[n] = v
		}
	}
	srv.ListLatency = [2]time.Duration{ms(sc.ListLatMs[0]), ms(sc.ListLatMs[1])}
	srv.WatchMode = sc.WatchMode
	srv.StrayContinue = sc.StrayContinue
	if sc.HoldFirstList {
		srv.HoldFirstList = make(chan struct{})
	}
	for _, o := range sc.Init {
		srv.Apply(o)
	}
	h := world.NewH(srv, sc.Filter, sc.period(), sc.LogYield)
	h.NoRelist = sc.PeriodMs <= 0
	h.ExpectNoOverflow = sc.NoOverflow
	h.GetCheck = sc.GetCheck
	h.ShareHB = sc.ShareHB
	h.StaticAtReady = sc.Static
	h.PerNodeOverflow = sc.Prop == "C10"
	t := &treeRun{sc: sc, h: h, srv: srv, asyncDone: make(chan struct{}, 64)}
	h.RootDown = t.rootDown
	h.OnCbAct = func(n *world.NodeRT, act string) {
		// an API call from a monitor's goroutine: asynchronous to the script
		switch {
		case act == "close-root", act == "close-parent" && n.Parent == nil:
			t.trigRoot = true
			t.triggered = true
		case act == "close-parent", act == "close-self":
			t.triggered = true
		}
	}
	failAt := 0
	for k, v := range srv.F.ListScript {
		if v != "" && v != "hang" && v != "hang-deaf" && (failAt == 0 || k < failAt) {
			failAt = k
		}
	}
	t.failAt = failAt
	if failAt > 0 {
		t.listFailed = true
	}
	h.Start()
	detsim.SetInvariant(func() (string, string) {
		if c, d := h.Invariant(); c != "" {
			return c, d
		}
		return t.structureInvariant()
	})
	if sc.Trigger != nil {
		tr := sc.Trigger
		detsim.AtStep(tr.AtStep, "trigger:"+tr.Kind, func() { t.fire(tr) })
	}

	for i := range sc.Acts {
		a := sc.Acts[i]
		if a.Async {
			t.asyncLeft++
			go func() {
				t.act(a)
				t.asyncDone <- struct{}{}
			}()
			continue
		}
		t.act(a)
	}
	for ; t.asyncLeft > 0; t.asyncLeft-- {
		<-t.asyncDone
	}

	// final phase: faults stop, everything drains
	srv.F.Stop()
	detsim.FairMode()
	if sc.PeriodMs <= 0 && !t.rootDown() {
		waitQuiet(recoveryBound, func() bool { return t.rootDown() || h.WatchLossPossible() || sc.WatchMode != "" || rootInSync(h) })
	}
	if t.failAt > 0 {
		t.listFailureChecks()
	}
	t.finalChecks()
}

func (t *treeRun) fire(tr *Trigger) {
	h := t.h
	detsim.Note("TRIGGER %s node=%d at step %d", tr.Kind, tr.Node, detsim.Steps())
	switch tr.Kind {
	case "close":
		t.trigRoot = true
		t.triggered = true
		h.Ctrl.Close()
	case "close3":
		t.trigRoot = true
		t.triggered = true
		for i := 0; i < 2; i++ {
			go h.Ctrl.Close()
		}
		h.Ctrl.Close()
	case "cancel":
		t.cancelled = true
		t.trigRoot = true
		t.triggered = true
		h.Cancel()
	case "node":
		if n := t.node(tr.Node); n != nil {
			t.triggered = true
			t.trigNode = n
			h.CloseNode(n)
		}
	}
}

func (t *treeRun) act(a TAct) {
	h, srv := t.h, t.srv
	switch a.Op {
	case "apply":
		srv.Apply(world.Spec{NS: a.NS, Name: a.Name, Labels: a.Labels})
	case "delete":
		srv.Delete(a.NS + "/" + a.Name)
	case "marathon":
		// tens of thousands of short-lived subscriptions on one publisher while
		// older subscribers stay (ids, counters and tables that wrap or grow)
		pub := h.PublisherOf(t.node(a.Node))
		if pub == nil {
			return
		}
		for i := 0; i < a.Ms; i++ {
			s, err := pub.Subscribe()
			if err != nil {
				detsim.Fail("api-error", "Subscribe #%d on a running publisher: %v", i, err)
			}
			s.Close()
			<-s.Done()
		}
		detsim.Count("probe:subscription-marathon")
	case "bulk":
		// hundreds of objects appear (or change) at once
		for i := 0; i < a.Ms; i++ {
			srv.Apply(world.Spec{NS: "n1", Name: "bulk" + itoa(i), Labels: map[string]string{"app": "a"}})
		}
		detsim.Count("probe:bulk-write")
	case "sleep":
		time.Sleep(ms(a.Ms))
	case "settle":
		detsim.Settle()
		detsim.HoldTime(true)
		h.SeedMirrors() // strict replay starts at the first quiescent point after a subscriber exists
		detsim.HoldTime(false)
	case "check":
		t.check()
	case "release":
		if srv.HoldFirstList != nil && !detsim.IsClosed(srv.HoldFirstList) {
			srv.FailFirstList = a.Block // "release" with block=true means: the first list fails
			srv.FailFirstKind = a.Kind  // ... in this way (a list-script kind)
			if srv.FailFirstList {
				t.listFailed = true
			}
			close(srv.HoldFirstList)
		}
	case "mknode":
		parent := t.node(a.Node)
		if a.Node >= 0 && (parent == nil || !parent.IsPublisher()) {
			return
		}
		h.NextMonitorNoInit = a.NoInit && a.Kind == "monitor"
		h.NextReuseHandlerOf = nil
		if a.Kind == "monitor" && a.ReuseOf > 0 {
			if r := t.node(a.ReuseOf - 1); r != nil && r.Mon != nil && detsim.IsClosed(r.Mon.Done()) {
				h.NextReuseHandlerOf = r
			}
		}
		h.NextStateful = a.Stateful && (a.Kind == "subf" || a.Kind == "clonef")
		n, err := h.MakeNode(parent, a.Kind, a.Filter, a.Reader)
		if err != nil {
			// only acceptable when the publisher is (being) shut down
			if !strings.Contains(err.Error(), kcache.ErrNotRunning.Error()) {
				detsim.Fail("api-error", "creating %s below node %d failed with %v", a.Kind, a.Node, err)
			}
			if !t.closedByScenario(parent) && !t.triggered {
				detsim.Fail("api-error", "creating %s below a running publisher (node %d) failed with %v", a.Kind, a.Node, err)
			}
			return
		}
		n.SlowEvery = ms(a.SlowMs)
		n.HandlerMs = a.HandlerMs
		n.SelfCloseAt = a.SelfClose
		n.CbAct = a.CbAct
		if a.Block {
			n.BlockHandler = make(chan struct{})
		}
	case "shared-monitors":
		parent := t.node(a.Node)
		if a.Node >= 0 && (parent == nil || !parent.IsPublisher()) {
			return
		}
		detsim.Settle()
		w, err := h.MakeNode(parent, "monitor", world.FilterSpec{}, "")
		if err != nil {
			return
		}
		sh := &sharedHandler{parent: parent, witness: w, calls: map[string]int{}}
		hit := func(kind string) {
			sh.calls[kind]++
			sh.busy++
			time.Sleep(time.Duration(a.Ms) * time.Millisecond) // (long enough for the two monitors to overlap)
			sh.busy--
		}
		hv := kcache.BuildHandler().
			OnInitialize(func([]metav1.Object) { hit("init") }).
			OnCreate(func(metav1.Object) { hit("create") }).
			OnUpdate(func(metav1.Object) { hit("update") }).
			OnDelete(func(metav1.Object) { hit("delete") }).Create()
		for i := range sh.mons {
			m, err := kcache.NewMonitor(h.PublisherOf(parent), hv)
			if err != nil {
				return
			}
			sh.mons[i] = m
		}
		detsim.Count("probe:one-handler-value-on-two-live-monitors")
		t.shared = append(t.shared, sh)
	case "crowd":
		// several components wire themselves up at once: Ms goroutines call
		// Subscribe() on the root at the same moment
		detsim.Count("probe:simultaneous-subscribes")
		joined := make(chan struct{})
		left := a.Ms
		for i := 0; i < a.Ms; i++ {
			m := &crowdMember{}
			t.crowd = append(t.crowd, m)
			i := i
			go func() {
				for y := i % 3; y > 0; y-- {
					detsim.Yield("crowd")
				}
				sub, err := h.Ctrl.Subscribe()
				if err == nil {
					m.sub = sub
				}
				if left--; left == 0 {
					close(joined)
				}
				if err == nil {
					for range sub.Events() {
						m.got++
					}
				}
			}()
		}
		if !world.WaitClosed(joined, time.Second) {
			detsim.Fail("hang:Subscribe", "%d simultaneous Subscribe() calls on the controller did not all return\n%s", a.Ms, dumpLive())
		}
	case "passerby":
		// a short-lived plain subscriber on that publisher: it subscribes, reads,
		// and closes again while the stream goes on - its siblings must not notice
		parent := t.node(a.Node)
		if a.Node >= 0 && (parent == nil || !parent.IsPublisher()) {
			return
		}
		pub := h.PublisherOf(parent)
		detsim.Count("probe:passer-by-subscriber")
		go func() {
			sub, err := pub.Subscribe()
			if err != nil {
				return
			}
			gone := make(chan struct{})
			go func() {
				for range sub.Events() {
				}
				close(gone)
			}()
			for i := a.Ms; i >= 0; i-- {
				detsim.Yield("passerby")
			}
			sub.Close()
			<-gone
		}()
	case "refilter":
		n := t.node(a.Node)
		if n == nil || !n.Filtered() {
			return
		}
		f := a.Filter
		if a.Same && n.HasFilter {
			// the filter in force, constructed again: equal, and a no-op
			f = n.Filter
			detsim.Count("probe:refilter-with-the-filter-in-force")
		}
		err := h.Refilter(n, f)
		if err != nil && !t.closedByScenario(n) && !t.triggered {
			detsim.Fail("api-error", "Refilter on running %s failed with %v", n.Name(), err)
		}
	case "close":
		if a.Node < 0 {
			t.trigRoot = true
			if !t.deafClient() {
				h.Ctrl.Close()
				return
			}
			go h.Ctrl.Close() // (Close() waits for the controller to finish, and that waits for the client)
			detsim.Settle()
			if srv.DeafHanging > 0 {
				// a List call that ignores its context is still out: the controller
				// itself cannot finish, but everything below it is released the moment
				// shutdown begins
				detsim.Settle()
				detsim.Count("probe:root-closed-with-deaf-list-in-flight")
				for _, n := range h.Nodes {
					// (a monitor may still be working off callbacks that take time)
					if !world.WaitClosed(h.DoneOf(n), 30*time.Second) {
						detsim.Fail("shutdown-not-cascaded", "the controller was closed while a List call that ignores its context is in flight: %s is still running (descendants must not wait for the client)\n%s", n.Name(), dumpLive())
					}
				}
			}
			return
		}
		if n := t.node(a.Node); n != nil {
			h.CloseNode(n)
		}
	case "cancelctx":
		t.cancelled = true
		t.trigRoot = true
		h.Cancel()
	case "drain":
		if n := t.node(a.Node); n != nil && n.Sub != nil && n.Mon == nil {
			h.Drain(n)
		}
	case "drain-racing":
		// the stalled consumer wakes up and reads everything it has - not at a quiet
		// moment but while the next events are on their way to it
		if n := t.node(a.Node); n != nil && n.Sub != nil && n.Mon == nil && n.Reader == "stalled" {
			n.RacyDrain = true
			detsim.Count("probe:stalled-consumer-drains-mid-stream")
			go func() {
				for i := a.Ms; i > 0; i-- {
					detsim.Yield("drain-racing")
				}
				h.DrainSome(n, 0)
			}()
		}
	case "drain-some":
		// a slow consumer catches up a little, at a quiescent point, and stalls again
		detsim.Settle()
		if n := t.node(a.Node); n != nil && n.Sub != nil && n.Mon == nil && n.Reader == "stalled" {
			detsim.HoldTime(true)
			k := h.DrainSome(n, a.Ms)
			detsim.HoldTime(false)
			detsim.Count("probe:stalled-consumer-partial-drain")
			_ = k
		}
	case "unblock":
		if n := t.node(a.Node); n != nil && n.BlockHandler != nil && !detsim.IsClosed(n.BlockHandler) {
			close(n.BlockHandler)
		}
	case "unfreeze":
		h.StaticAtReady = false
	case "api":
		t.apiProbe()
	}
}

// apiProbe issues every kind of API call; each must return (a result or
// ErrNotRunning), never block: a blocked call shows up as a wedge of the caller.
func (t *treeRun) apiProbe() {
	h := t.h
	t.apiCalls++
	if _, err := h.Ctrl.Cache().List(); err != nil && !t.rootDown() && !t.triggered {
		detsim.Fail("api-error", "Cache().List() on a running controller: %v", err)
	}
	h.Ctrl.Cache().Get("n1", "a")
	if s, err := h.Ctrl.Subscribe(); err == nil {
		if t.rootDown() {
			// raced with shutdown: the object must itself shut down
			if !world.WaitClosed(s.Done(), time.Second) {
				detsim.Fail("zombie-subscription", "Subscribe() during/after shutdown returned a subscription whose Done() never closes")
			}
		} else {
			s.Close()
		}
	}
	if c, err := h.Ctrl.CloneWithFilter(world.FilterSpec{Op: "labels", K: "app", V: "a"}.Build()); err == nil {
		c.Refilter(world.FilterSpec{Op: "null"}.Build())
		if t.rootDown() {
			if !world.WaitClosed(c.Done(), time.Second) {
				detsim.Fail("zombie-subscription", "CloneWithFilter() during/after shutdown returned a controller whose Done() never closes")
			}
		} else {
			c.Close()
		}
	}
}

// structureInvariant (evaluated after every step): readiness implies the
// parent's readiness and, for deferred nodes, that a filter was supplied; a
// node is never done while the scenario has given no reason for it.
func (t *treeRun) structureInvariant() (string, string) {
	h := t.h
	for _, n := range h.Nodes {
		if n.Mon != nil {
			continue
		}
		r := h.ReadyOf(n)
		if r != nil && detsim.IsClosed(r) {
			if pr := h.ReadyOf(n.Parent); pr != nil && !detsim.IsClosed(pr) {
				return "ready-before-parent", fmt.Sprintf("%s is ready although its parent is not", n.Name())
			}
			if n.Deferred && !n.HasFilter && !n.RefilterPending {
				return "deferred-ready-without-filter", fmt.Sprintf("%s (for-filter variant) is ready although no Refilter was ever submitted", n.Name())
			}
		}
	}
	if t.failAt == 1 || t.srv.FailFirstList {
		if detsim.IsClosed(h.Ctrl.Ready()) {
			return "ready-after-failed-first-list", "the first list failed but the controller became ready"
		}
	}
	return "", ""
}

func (t *treeRun) check() {
	h := t.h
	detsim.Settle()
	detsim.HoldTime(true)
	defer detsim.HoldTime(false)
	t.lifecycleCheck(false)
	h.CheckTree("")
	healthy := len(t.sc.Faults) == 0 && t.sc.WatchMode == "" && len(t.sc.ListScript) == 0
	if healthy && !h.WatchLossPossible() && !t.rootDown() && detsim.IsClosed(h.Ctrl.Ready()) {
		h.CheckRootEqualsServer("healthy-watch-missed-events")
	}
}

// lifecycleCheck: Done() is closed for exactly the nodes the scenario shut
// down (C11); final=true additionally demands that closed nodes' readers saw
// the closed Events() channel.
func (t *treeRun) lifecycleCheck(final bool) {
	h := t.h
	rootDone := detsim.IsClosed(h.Ctrl.Done())
	if rootDone && !t.rootDown() {
		detsim.Fail("controller-died", "controller is done although nothing shut it down: Error()=%v\n%s", h.Ctrl.Error(), t.srv.Summary())
	}
	if !rootDone && t.rootDown() && final {
		detsim.Fail("root-not-done", "controller was shut down (close/cancel/list failure) but Done() is still open\n%s", dumpLive())
	}
	for _, n := range h.Nodes {
		done := detsim.IsClosed(h.DoneOf(n))
		want := t.closedByScenario(n)
		if done && !want {
			detsim.Fail("shutdown-spread", "%s is done although neither it nor an ancestor was closed (shutdown must not travel up or sideways)", n.Name())
		}
		if !done && want && final {
			detsim.Fail("shutdown-not-cascaded", "%s is still running although it or an ancestor was shut down\n%s", n.Name(), dumpLive())
		}
		// (a slow reader may be asleep between two reads while the clock is held for the final checks)
		if final && done && n.Sub != nil && n.Mon == nil && (n.Reader == "eager" || n.Reader == "slow" && n.SlowEvery <= 0) && !n.SawClose {
			detsim.Fail("events-not-closed", "%s is done but its reader never saw the Events() channel closed", n.Name())
		}
	}
}

func (t *treeRun) finalChecks() {
	h, sc := t.h, t.sc
	detsim.Settle()
	detsim.HoldTime(true)
	// unblock every blocked handler so that monitors can finish
	for _, n := range h.Nodes {
		if n.BlockHandler != nil && !detsim.IsClosed(n.BlockHandler) {
			close(n.BlockHandler)
		}
	}
	detsim.Settle()
	for i := 0; i < 2000 && (h.MonitorsBusy() || t.sharedBusy()); i++ {
		time.Sleep(50 * time.Millisecond) // a slow handler finishes its callback before its monitor can notice the shutdown
		detsim.Settle()
	}
	t.lifecycleCheck(true)
	h.CheckTree("")
	// survivors are fully functional: one more write reaches every live node
	if !t.rootDown() && detsim.IsClosed(h.Ctrl.Ready()) && sc.WatchMode == "" {
		var before []int
		for _, m := range t.crowd {
			before = append(before, m.got)
		}
		probe := t.srv.Apply(world.Spec{NS: "n1", Name: "a", Labels: map[string]string{"app": "a", "tier": "x", "probe": "1"}})
		crowdCheck := func() {
			// (after the settle below) everybody who subscribed at the same moment hears of it
			if h.WatchLossPossible() || t.rootDown() || !h.RootPred(probe) {
				return
			}
			for i, m := range t.crowd {
				if m.sub != nil && !detsim.IsClosed(m.sub.Done()) && m.got == before[i] {
					detsim.Fail("subscriber-deaf", "member %d of %d subscribers that called Subscribe() on the controller at the same moment got (sub, nil) but receives nothing: a later write reached the cache and its siblings, not this subscriber (%d events so far)", i, len(t.crowd), m.got)
				}
			}
		}
		if sc.PeriodMs <= 0 {
			waitQuiet(recoveryBound, func() bool { return t.rootDown() || h.WatchLossPossible() || rootInSync(h) })
		} else {
			time.Sleep(sc.cycle()*3 + ms(sc.ListLatMs[0]+sc.ListLatMs[1])*2 + 2*time.Second)
		}
		detsim.Settle()
		if (!h.WatchLossPossible() || sc.PeriodMs > 0) && !t.rootDown() {
			h.CheckRootEqualsServer("survivor-not-functional")
		}
		h.CheckTree("survivor:")
		crowdCheck()
	}
	for i := 0; i < 2000 && (h.MonitorsBusy() || t.sharedBusy()); i++ {
		time.Sleep(50 * time.Millisecond) // slow handlers work off their backlog
		detsim.Settle()
	}
	t.sequenceChecks()
	t.tailChecks()
	t.stalledChecks()
	t.monitorChecks()
	if sc.CloseAtEnd || t.rootDown() {
		t.trigRoot = true
		closeAndCheckClean(h, time.Millisecond)
		if !t.cancelled && !t.listFailed {
			if err := h.Ctrl.Error(); err != nil {
				detsim.Fail("error-after-deliberate-close", "controller closed deliberately with Close() reports Error() = %v", err)
			}
		}
		t.lifecycleCheck(true)
		// API calls after shutdown return instead of blocking
		if _, err := h.Ctrl.Cache().List(); err == nil {
			detsim.Fail("api-after-shutdown", "Cache().List() after Done() returned no error")
		}
		if _, err := h.Ctrl.Subscribe(); err == nil {
			detsim.Fail("api-after-shutdown", "Subscribe() after Done() returned no error")
		}
		for _, n := range h.Nodes {
			if n.Filtered() {
				if err := h.Refilter(n, world.FilterSpec{Op: "null"}); err == nil {
					detsim.Fail("api-after-shutdown", "Refilter() on %s after shutdown returned no error", n.Name())
				}
			}
		}
		if t.listFailed || len(sc.ListScript) > 0 {
			return
		}
	}
}

// listFailureChecks: C14 - the failAt-th list fails; the controller must stop,
// report the cause, and (if it was the first list) never become ready.
func (t *treeRun) listFailureChecks() {
	h, sc, srv := t.h, t.sc, t.srv
	per := sc.cycle()
	lat := ms(sc.ListLatMs[0] + sc.ListLatMs[1])
	bound := time.Duration(t.failAt+1)*(per+per/5+lat) + 2*time.Second
	if t.trigRoot {
		// a monitor callback closed the controller: the scripted failure may
		// never be reached, and a deliberate close reports no failure
		return
	}
	closed := world.WaitClosed(h.Ctrl.Done(), bound)
	if t.trigRoot {
		return
	}
	if !closed {
		detsim.Fail("list-failure-not-fatal", "list#%d was scripted to fail (%s) but the controller is still running %v later\n%s", t.failAt, srv.F.ListScript[t.failAt], bound, srv.Summary())
	}
	err := h.Ctrl.Error()
	if err == nil {
		detsim.Fail("list-failure-not-reported", "list#%d failed (%s), the controller stopped, but Error() is nil", t.failAt, srv.F.ListScript[t.failAt])
	}
	if kind := srv.F.ListScript[t.failAt]; strings.HasPrefix(kind, "error") && !strings.Contains(err.Error(), world.ListErrorText(kind)) {
		detsim.Fail("list-failure-not-reported", "list#%d failed with %q but Error() = %q does not report the cause", t.failAt, world.ListErrorText(kind), err.Error())
	}
	if t.failAt == 1 && detsim.IsClosed(h.Ctrl.Ready()) {
		detsim.Fail("ready-after-failed-first-list", "the first list failed but Ready() closed")
	}
	if t.failAt%2 == 0 {
		// ordinary cleanup of the dead controller (defer c.Close()): the cause stays on record
		detsim.Count("probe:close-after-list-failure")
		done := make(chan struct{})
		go func() {
			h.Ctrl.Close()
			close(done)
		}()
		if !world.WaitClosed(done, time.Second) {
			detsim.Fail("hang:Close", "Close() of a controller that a list failure had already stopped did not return\n%s", dumpLive())
		}
		if err2 := h.Ctrl.Error(); err2 == nil || err2.Error() != err.Error() {
			detsim.Fail("list-failure-not-reported", "list#%d failed and Error() reported %q; after a Close() of the stopped controller Error() = %v", t.failAt, err.Error(), err2)
		}
	}
}

// stalledChecks: C10 - what a stalled consumer finally drains is an in-order
// subsequence of what a healthy sibling received over the same interval, and
// it lost nothing while its buffer had room.
func (t *treeRun) stalledChecks() {
	h := t.h
	var w *world.NodeRT
	for _, n := range h.Nodes {
		if n.Sub != nil && n.Mon == nil && n.Reader == "eager" && n.Parent == nil && !n.Filtered() && !n.Lost() && !n.WeClosed {
			w = n
			break
		}
	}
	for _, n := range h.Nodes {
		if n.Sub == nil || n.Mon != nil || n.Reader != "stalled" {
			continue
		}
		closedHere := false
		if n.ID%2 == 1 && !t.closedByScenario(n) && !detsim.IsClosed(n.Sub.Done()) {
			closedHere = true
			// the consumer gives up first and looks at what it was left with afterwards:
			// what sat in its buffer when it closed is still there to be read
			detsim.Count("probe:stalled-consumer-closed-before-draining")
			h.CloseNode(n)
			detsim.Settle()
		}
		h.Drain(n)
		if w == nil || w.ID > n.ID || h.AnyFilteredAncestorOrSelf(n) || n.Parent != nil && n.Parent.Filtered() {
			continue // (a witness created after n has not seen what n saw before)
		}
		// over the same interval: witness events received after n was created
		var ref []string
		for _, e := range w.Events {
			if e.Seq > n.CreatedSeq {
				ref = append(ref, e.Sig())
			}
		}
		got := world.Sigs(n.Events)
		if !isSubsequence(got, world.Sigs(w.Events)) {
			detsim.Fail("stalled-consumer-out-of-order", "%s drained %v, which is not an in-order subsequence of what the healthy %s received: %v", n.Name(), got, w.Name(), world.Sigs(w.Events))
		}
		capv := cap(n.Sub.Events())
		need := len(ref)
		if need > capv {
			need = capv
		}
		if len(n.DrainPoints) > 0 {
			// replay the buffer: between two drain points it keeps what fits
			// (drop-newest), a drain frees K slots
			need = 0
			b, i := 0, 0
			var refSeq []int
			for _, e := range w.Events {
				if e.Seq > n.CreatedSeq {
					refSeq = append(refSeq, e.Seq)
				}
			}
			points := append(append([]world.DrainPoint(nil), n.DrainPoints...), world.DrainPoint{AtSeq: 1 << 60})
			for _, p := range points {
				seg := 0
				for i < len(refSeq) && refSeq[i] <= p.AtSeq {
					seg++
					i++
				}
				kept := seg
				if kept > capv-b {
					kept = capv - b
				}
				need += kept
				b += kept
				if p.K < b {
					b -= p.K
				} else {
					b = 0
				}
			}
		}
		if n.RacyDrain {
			need = 0 // (what fitted depends on when exactly it woke up)
		}
		if len(got) < need && (closedHere || !t.closedByScenario(n)) {
			detsim.Fail("stalled-consumer-lost-too-much", "%s (buffer %d) drained only %d events although %d were published after its creation: it may only lose what exceeds its buffer", n.Name(), capv, len(got), len(ref))
		}
	}
}

func isSubsequence(sub, seq []string) bool {
	i := 0
	for _, x := range seq {
		if i < len(sub) && sub[i] == x {
			i++
		}
	}
	return i == len(sub)
}

// sequenceChecks: C05 - pairwise order / exactly-once / suffix rule between
// unfiltered eager subscribers when no overflow happened.
func (t *treeRun) sequenceChecks() {
	h := t.h
	if h.Overflowed() || !t.sc.NoOverflow {
		return
	}
	var plain []*world.NodeRT
	for _, n := range h.Nodes {
		if n.Sub == nil || n.Mon != nil || n.Reader != "eager" || h.AnyFilteredAncestorOrSelf(n) {
			continue
		}
		plain = append(plain, n)
	}
	if len(plain) < 2 {
		return
	}
	sort.SliceStable(plain, func(i, j int) bool { return plain[i].CreatedSeq < plain[j].CreatedSeq })
	// the witness is the subscriber that saw most (the earliest among equals):
	// every sequence is a suffix of the one published sequence, so the shorter of
	// two is a suffix of the longer.  Creation order alone does not say which one
	// is longer - a subscriber created later below a clone still receives events
	// that were in flight inside the clone when an earlier, direct subscriber of
	// the root was created after the root had already distributed them.
	wi := 0
	for i, n := range plain {
		if !t.closedByScenario(n) && (t.closedByScenario(plain[wi]) || len(n.Events) > len(plain[wi].Events)) {
			wi = i
		}
	}
	w := plain[wi]
	ws := world.Sigs(w.Events)
	for i, n := range plain {
		if i == wi {
			continue
		}
		ns := world.Sigs(n.Events)
		// events received by n while it was alive must be a contiguous run of the
		// witness sequence; if both lived to the end, a suffix
		if len(ns) > len(ws) && !t.closedByScenario(w) {
			detsim.Fail("subscriber-sequence-mismatch", "%s received %d events, the witness %s only %d\n  %s: %v\n  %s: %v", n.Name(), len(ns), w.Name(), len(ws), n.Name(), ns, w.Name(), ws)
		}
		if t.closedByScenario(n) || t.closedByScenario(w) {
			if !containsRun(ws, ns) && !t.closedByScenario(w) {
				detsim.Fail("subscriber-sequence-mismatch", "the events of %s are not a contiguous run of what %s received\n  %s: %v\n  %s: %v", n.Name(), w.Name(), n.Name(), ns, w.Name(), ws)
			}
			continue
		}
		off := len(ws) - len(ns)
		for i := range ns {
			if ws[off+i] != ns[i] {
				detsim.Fail("subscriber-sequence-mismatch", "%s did not receive a suffix of the sequence %s received (order, omission or duplicate)\n  %s: %v\n  %s: %v", n.Name(), w.Name(), n.Name(), ns, w.Name(), ws)
			}
		}
		// everything published after n's creation returned must be in n's sequence:
		// no event in the part n missed may stem from a write later than n's creation
		if t.sc.PeriodMs <= 0 {
			for _, e := range w.Events[:off] {
				if e.Type != "delete" && e.Obj.Ver() > n.CreatedRV {
					detsim.Fail("late-subscriber-missed-event", "%s was created when the server was at version %d but did not receive %s, which %s received", n.Name(), n.CreatedRV, e.Sig(), w.Name())
				}
			}
		}
	}
}

// tailChecks: after a deliberate Close() of the controller every stage of the
// fan-out hands on what it was handed before it stops what is below it, so all
// plain subscribers that lived until then end on the same events - whatever one
// of them received last, the others received too.
func (t *treeRun) tailChecks() {
	h := t.h
	if h.Overflowed() || !t.sc.NoOverflow || !t.trigRoot || t.cancelled || t.listFailed || t.triggered || t.deafClient() {
		return
	}
	var alive []*world.NodeRT
	for _, n := range h.Nodes {
		if n.Sub == nil || n.Mon != nil || n.Reader != "eager" || h.AnyFilteredAncestorOrSelf(n) {
			continue
		}
		individually := false
		for p := n; p != nil; p = p.Parent {
			if p.WeClosed {
				individually = true
			}
		}
		if !individually {
			alive = append(alive, n)
		}
	}
	if len(alive) < 2 {
		return
	}
	w := alive[0]
	for _, n := range alive {
		if len(n.Events) > len(w.Events) {
			w = n
		}
	}
	ws := world.Sigs(w.Events)
	detsim.Count("probe:tails-compared-after-controller-close")
	for _, n := range alive {
		ns := world.Sigs(n.Events)
		off := len(ws) - len(ns)
		for i := range ns {
			if ws[off+i] != ns[i] {
				detsim.Fail("subscriber-missed-tail-at-shutdown", "the controller was closed with events in flight: %s and %s both lived until then but do not end on the same events (everything a stage was handed before the shutdown reaches everybody below it)\n  %s: %v\n  %s: %v", n.Name(), w.Name(), n.Name(), ns, w.Name(), ws)
			}
		}
	}
}

func containsRun(hay, needle []string) bool {
	if len(needle) == 0 {
		return true
	}
	for i := 0; i+len(needle) <= len(hay); i++ {
		ok := true
		for j := range needle {
			if hay[i+j] != needle[j] {
				ok = false
				break
			}
		}
		if ok {
			return true
		}
	}
	return false
}

// monitorChecks: C16 - initialize first and once, then one callback per event
// in order; nothing before readiness when the publisher dies early.
func (t *treeRun) monitorChecks() {
	h := t.h
	for _, sh := range t.shared {
		// each of the two monitors owes the shared handler one callback per event,
		// exactly like the third monitor owes its own handler
		if h.Overflowed() || t.closedByScenario(sh.witness) || sh.witness.Lost() || detsim.IsClosed(sh.mons[0].Done()) || detsim.IsClosed(sh.mons[1].Done()) {
			continue
		}
		own := map[string]int{}
		for _, c := range sh.witness.MonLog {
			own[c.Kind]++
		}
		for _, k := range []string{"init", "create", "update", "delete"} {
			if sh.calls[k] != 2*own[k] {
				detsim.Fail("monitor-missed-event", "one Handler value is attached to two live monitors of %s: together they invoked On%s %d times, a third monitor created at the same quiet moment with a handler of its own invoked it %d times (two monitors, one callback per event each: %d expected)", h.PublisherName(sh.parent), k, sh.calls[k], own[k], 2*own[k])
			}
		}
	}
	for _, n := range h.Nodes {
		if n.Mon == nil {
			continue
		}
		if n.NoInit {
			// no OnInitialize registered: every callback is the callback of an
			// event - in particular none for what was there before the monitor
			var w *world.NodeRT
			for _, x := range h.Nodes {
				if x.Sub != nil && x.Mon == nil && x.Reader == "eager" && x.Parent == nil && !x.Filtered() && !x.Lost() && !x.WeClosed && x.ID < n.ID {
					w = x
					break
				}
			}
			if w != nil && !h.Overflowed() && !h.AnyFilteredAncestorOrSelf(n) {
				if calls := callSigsTree(n.MonLog); !isSubsequence(calls, witnessSigs(w)) {
					detsim.Fail("monitor-callback-without-event", "%s (handler without OnInitialize): its callbacks %v are not an in-order subsequence of the events the older %s received %v", n.Name(), calls, w.Name(), witnessSigs(w))
				}
			}
			continue
		}
		inits := 0
		for i, c := range n.MonLog {
			if c.Kind == "init" {
				inits++
				if i != 0 {
					detsim.Fail("monitor-init-not-first", "%s: OnInitialize was callback #%d, not the first", n.Name(), i+1)
				}
			}
		}
		if inits > 1 {
			detsim.Fail("monitor-init-twice", "%s: OnInitialize ran %d times", n.Name(), inits)
		}
		if len(n.MonLog) > 0 && n.MonLog[0].Kind != "init" {
			detsim.Fail("monitor-init-not-first", "%s: first callback was %s, not OnInitialize", n.Name(), n.MonLog[0].Kind)
		}
		ready := detsim.IsClosed(h.ReadyOf(n.Parent))
		if !ready && len(n.MonLog) > 0 {
			detsim.Fail("monitor-callback-before-ready", "%s: %d callbacks although the publisher never became ready", n.Name(), len(n.MonLog))
		}
		if len(n.MonLog) == 0 {
			continue
		}
		// completeness: a monitor that existed before anything was written gets a
		// callback for every event an older healthy subscriber of the same stream
		// received (one per event, in order) - also for events that "only" repeat
		// what its OnInitialize list already showed
		if n.BeforeTraffic && !h.Overflowed() && !t.closedByScenario(n) && !n.Lost() && !h.AnyFilteredAncestorOrSelf(n) {
			for _, x := range h.Nodes {
				if x.Sub != nil && x.Mon == nil && x.Reader == "eager" && x.Parent == nil && !x.Filtered() && !x.Lost() && !x.WeClosed && x.ID < n.ID && x.BeforeTraffic {
					if ws, cs := witnessSigs(x), callSigsTree(n.MonLog[1:]); !isSubsequence(ws, cs) {
						detsim.Fail("monitor-missed-event", "%s: not every event has its callback\n  events (as received by %s): %v\n  callbacks: %v", n.Name(), x.Name(), ws, cs)
					}
					break
				}
			}
		}
		// replay: init list + callbacks must reproduce the publisher's cache
		// (when nothing overflowed and the monitor is still attached)
		if h.Overflowed() || t.closedByScenario(n) || n.Lost() {
			continue
		}
		var types []string
		var objs []world.Spec
		for _, c := range n.MonLog[1:] {
			if len(c.Objs) == 1 {
				types = append(types, c.Kind)
				objs = append(objs, c.Objs[0])
			}
		}
		if got, _, ok := world.ListIDs(h.CacheOf(n.Parent)); ok {
			// callbacks for events queued before OnInitialize's List() are
			// legitimately repeated: some prefix is already reflected in the list
			if ok2, why := world.ReplayWithUnknownOverlap(n.Name(), n.MonLog[0].Objs, types, objs, got); !ok2 {
				detsim.Fail("monitor-diverged", "%s: OnInitialize list plus callbacks do not reproduce the publisher cache for any alignment (%s)\n  init  : %v\n  calls : %v\n  cache : %v", n.Name(), why, world.SpecIDs(n.MonLog[0].Objs), callSigsTree(n.MonLog[1:]), got)
			}
		}
	}
}

func witnessSigs(w *world.NodeRT) []string {
	var out []string
	for _, e := range w.Events {
		out = append(out, e.Type+" "+e.Obj.Key()+"@"+e.Obj.RV)
	}
	return out
}

func callSigsTree(calls []world.MonCall) []string {
	var out []string
	for _, c := range calls {
		if len(c.Objs) == 1 {
			out = append(out, c.Kind+" "+c.Objs[0].Key()+"@"+c.Objs[0].RV)
		}
	}
	return out
}

func describeTree(sci interface{}) string {
	sc := sci.(*Tree)
	nodes := 0
	kinds := map[string]int{}
	for _, a := range sc.Acts {
		kinds[a.Op]++
		if a.Op == "mknode" {
			nodes++
		}
	}
	trig := "none"
	if sc.Trigger != nil {
		trig = fmt.Sprintf("%s@step%d", sc.Trigger.Kind, sc.Trigger.AtStep)
	}
	return fmt.Sprintf("period=%dms bufsiz=%d filter=%s nodes=%d acts=%v faults=%d listscript=%v watchmode=%q trigger=%s strategy=%s",
		sc.PeriodMs, sc.Bufsiz, sc.Filter.String(), nodes, kinds, len(sc.Faults), sc.ListScript, sc.WatchMode, trig, sc.Sim.Strategy.Kind)
}

func treeFamily(gen func(GenCtx) interface{}) *Family {
	return &Family{
		Gen:      gen,
		New:      func() interface{} { return &Tree{} },
		Run: func(sci interface{}) {
			if j := sci.(*Tree).Join; j != nil {
				runJoin(j)
				return
			}
			runTree(sci)
		},
		Sim: func(sc interface{}) SimCfg {
			if j := sc.(*Tree).Join; j != nil {
				return j.Sim
			}
			return sc.(*Tree).Sim
		},
		Describe: func(sci interface{}) string {
			if j := sci.(*Tree).Join; j != nil {
				return "join: " + describeJoin(j)
			}
			return describeTree(sci)
		},
		Nontrivial: func(sci interface{}, res *detsim.Result) bool {
			if sci.(*Tree).Join != nil {
				return res.Contended > 10
			}
			return len(sci.(*Tree).Acts) > 1 && res.Contended > 10
		},
	}
}
