package scen

import (
	"reflect"
	"context"
	"fmt"
	"math/rand"
	"time"

	"detsim"
	"kcsim/world"

	logutil "github.com/boz/go-logutil"
	"github.com/boz/kcache/filter"
	"github.com/boz/kcache/join"
	"github.com/boz/kcache/types/daemonset"
	"github.com/boz/kcache/types/deployment"
	"github.com/boz/kcache/types/ingress"
	"github.com/boz/kcache/types/job"
	"github.com/boz/kcache/types/pod"
	"github.com/boz/kcache/types/replicaset"
	"github.com/boz/kcache/types/replicationcontroller"
	"github.com/boz/kcache/types/service"
	"github.com/boz/kcache/types/statefulset"
	appsv1 "k8s.io/api/apps/v1"
	batchv1 "k8s.io/api/batch/v1"
	corev1 "k8s.io/api/core/v1"
	netv1beta1 "k8s.io/api/networking/v1beta1"
	metav1 "k8s.io/apimachinery/pkg/apis/meta/v1"
)

// JAct is one step of a join scenario.
type JAct struct {
	Op     string            `json:"op"` // src-apply src-delete dst-apply dst-delete mid-apply mid-delete sleep settle check cycle
	NS     string            `json:"ns,omitempty"`
	Name   string            `json:"name,omitempty"`
	Labels map[string]string `json:"labels,omitempty"`
	Sel    map[string]string `json:"sel,omitempty"`
	Refs   []string          `json:"refs,omitempty"`
	Ms     int               `json:"ms,omitempty"`
}

// Join is the scenario of C09.
type Join struct {
	Prop    string       `json:"prop"`
	Kind    string       `json:"kind"` // service rc rs deployment daemonset statefulset job ingress-service ingress-pods
	With    bool         `json:"with"` // use the ...With variant with a harness-supplied (same) selection function
	SrcInit []world.Spec `json:"src_init"`
	MidInit []world.Spec `json:"mid_init"`
	DstInit []world.Spec `json:"dst_init"`
	Acts    []JAct       `json:"acts"`
	Cycles  int          `json:"cycles"` // additional create/close cycles over the long-lived base controllers
	// DeadBase ("src" | "mid" | "dst"): that base controller is shut down before
	// the join is built over all of them; whatever the constructor returns, the
	// other bases (their own trees) are not touched by its unwinding
	DeadBase  string     `json:"dead_base,omitempty"`
	HotCycles bool       `json:"hot_cycles,omitempty"` // each of those joins is created while a source change is in flight
	Bufsiz  int          `json:"bufsiz,omitempty"` // EventBufsiz of the run (0 = 100)
	SrcCancelAtStep int  `json:"src_cancel_at_step,omitempty"` // > 0: the join is attached at once and the SOURCE base's context is cancelled that many steps later (around its readiness): the join must stay open
	OwnCtx  bool         `json:"own_ctx,omitempty"` // the join is built with a context of its own that ends right after construction (a set-up helper with defer cancel()); the bases live on
	CloseDst bool        `json:"close_dst"` // finally close the destination base while a join is alive: the join must go down with it (C11 for joins)
	Sim     SimCfg       `json:"sim"`
}

var joinKinds = []string{"service", "rc", "rs", "deployment", "daemonset", "statefulset", "job", "ingress-service", "ingress-pods"}

type baseCtrl interface {
	Ready() <-chan struct{}
	Done() <-chan struct{}
	Close()
}

// resultView gives uniform access to the join result (pod.Controller or service.Controller).
type resultView struct {
	list      func() ([]metav1.Object, error)
	ready     func() <-chan struct{}
	done      func() <-chan struct{}
	close     func()
	subscribe func(onEvent func(typ string, o metav1.Object), onClose func()) error
}

func podView(c pod.Controller) *resultView {
	return &resultView{
		list: func() ([]metav1.Object, error) {
			l, err := c.Cache().List()
			var out []metav1.Object
			for i, o := range l {
				out = append(out, o)
				l[i] = nil // the typed list is the caller's, too
			}
			return out, err
		},
		ready: c.Ready, done: c.Done, close: c.Close,
		subscribe: func(onEvent func(string, metav1.Object), onClose func()) error {
			s, err := c.Subscribe()
			if err != nil {
				return err
			}
			go func() {
				for ev := range s.Events() {
					onEvent(string(ev.Type()), ev.Resource())
				}
				onClose()
			}()
			return nil
		},
	}
}

func svcView(c service.Controller) *resultView {
	return &resultView{
		list: func() ([]metav1.Object, error) {
			l, err := c.Cache().List()
			var out []metav1.Object
			for i, o := range l {
				out = append(out, o)
				l[i] = nil // the typed list is the caller's, too
			}
			return out, err
		},
		ready: c.Ready, done: c.Done, close: c.Close,
		subscribe: func(onEvent func(string, metav1.Object), onClose func()) error {
			s, err := c.Subscribe()
			if err != nil {
				return err
			}
			go func() {
				for ev := range s.Events() {
					onEvent(string(ev.Type()), ev.Resource())
				}
				onClose()
			}()
			return nil
		},
	}
}

type joinEnv struct {
	sc            *Join
	ctx           context.Context
	jctx          context.Context // the context handed to the join constructors
	srcCtx        context.Context // the source base has a context of its own (it can die alone)
	srcCancel     context.CancelFunc
	log           logutil.Log
	src, mid, dst *world.Server
	bases         []baseCtrl
	mk            func() (*resultView, error)
	expected      func() []world.Spec
}

func srcKindOf(kind string) string {
	switch kind {
	case "rc":
		return "replicationcontroller"
	case "rs":
		return "replicaset"
	case "ingress-service", "ingress-pods":
		return "ingress"
	}
	return kind
}

// view: what the i-th base controller currently holds, as server-side specs.
// Without any dropped hand-off that is the server's content (the stronger,
// end-to-end statement).  Once something was dropped (small-buffer runs) the
// base caches may lag behind their servers until a relist; a join is defined
// over what its bases hold, so the base's own cache is read (reflectively: the
// typed controllers share no untyped accessor) and mapped back to the specs
// the server handed out.
func (e *joinEnv) view(srv *world.Server, i int) []world.Spec {
	if detsim.TotalDrops() == 0 {
		return srv.Objects()
	}
	hist := map[string]world.Spec{}
	for _, en := range srv.History() {
		hist[en.Obj.Key()+"@"+en.Obj.RV] = en.Obj
	}
	res := reflect.ValueOf(e.bases[i]).MethodByName("Cache").Call(nil)[0].MethodByName("List").Call(nil)
	if !res[1].IsNil() {
		detsim.Fail("api-error", "Cache().List() of base controller %d: %v", i, res[1].Interface())
	}
	var out []world.Spec
	for k := 0; k < res[0].Len(); k++ {
		o := world.SpecOf(res[0].Index(k).Interface().(metav1.Object))
		full, ok := hist[o.Key()+"@"+o.RV]
		if !ok {
			detsim.Fail("infra:scenario", "base controller %d holds %s, which its server never sent", i, o.ID())
		}
		out = append(out, full)
	}
	return out
}

// refSelect: the destination objects selected by at least one source object,
// by the harness' own statement of the selection rules (world.SelectsPod; an
// ingress selects the services of its namespace that it names).
func refSelect(srcKind string, srcs, dsts []world.Spec) []world.Spec {
	var out []world.Spec
	for _, d := range dsts {
		for _, s := range srcs {
			hit := false
			if srcKind == "ingress" {
				for _, r := range s.Refs {
					if r != "" && r == d.Name && s.NS == d.NS {
						hit = true
					}
				}
			} else {
				hit = world.SelectsPod(srcKind, s, d)
			}
			if hit {
				out = append(out, d)
				break
			}
		}
	}
	return out
}

// agree: the expected selection computed through the library's own selection
// filters and through the harness' independent statement of the rule must be
// the same set; the independent one is what the join is then held to.
func (e *joinEnv) agree(lib, ref []world.Spec) []world.Spec {
	if a, b := world.SpecIDs(lib), world.SpecIDs(ref); !world.SameIDs(a, b) {
		detsim.Fail("join-selection-wrong", "join(%s): the selection computed with the library's filters differs from the selection rule stated independently (a filter accepts or rejects what it should not)\n  library filters : %v\n  independent rule: %v\n  source: %v", e.sc.Kind, a, b, world.SpecIDs(e.src.Objects()))
	}
	return ref
}

func selectBy(f filter.Filter, kind string, objs []world.Spec) []world.Spec {
	var out []world.Spec
	for _, o := range objs {
		if f.Accept(world.BuildMeta(kind, o)) {
			out = append(out, o)
		}
	}
	return out
}

func (e *joinEnv) setup() {
	sc := e.sc
	e.src = world.NewServer(srcKindOf(sc.Kind))
	e.dst = world.NewServer("pod")
	if sc.Kind == "ingress-service" {
		e.dst = world.NewServer("service")
	}
	e.mid = world.NewServer("service")
	for _, o := range sc.SrcInit {
		e.src.Apply(o)
	}
	for _, o := range sc.MidInit {
		e.mid.Apply(o)
	}
	for _, o := range sc.DstInit {
		e.dst.Apply(o)
	}
	fail := func(err error) {
		if err != nil {
			detsim.Fail("infra:controller", "building a typed controller: %v", err)
		}
	}
	podBase := func() pod.Controller {
		c, err := pod.BuildController(e.ctx, e.log, e.dst)
		fail(err)
		e.bases = append(e.bases, c)
		return c
	}
	srcObjs := func() []world.Spec { return e.view(e.src, 0) }
	dstObjs := func() []world.Spec { return e.view(e.dst, len(e.bases)-1) }
	midObjs := func() []world.Spec { return e.view(e.mid, 1) }
	switch sc.Kind {
	case "service":
		s, err := service.BuildController(e.srcCtx, e.log, e.src)
		fail(err)
		e.bases = append(e.bases, s)
		d := podBase()
		fn := service.PodsFilter
		e.mk = func() (*resultView, error) {
			var r pod.Controller
			var err error
			if sc.With {
				r, err = join.ServicePodsWith(e.jctx, s, d, func(o ...*corev1.Service) filter.ComparableFilter { return fn(o...) })
			} else {
				r, err = join.ServicePods(e.jctx, s, d)
			}
			if err != nil {
				return nil, err
			}
			return podView(r), nil
		}
		e.expected = func() []world.Spec {
			var objs []*corev1.Service
			for _, o := range srcObjs() {
				objs = append(objs, world.Build("service", o).(*corev1.Service))
			}
			return e.agree(selectBy(fn(objs...), "pod", dstObjs()), refSelect("service", srcObjs(), dstObjs()))
		}
	case "rc":
		s, err := replicationcontroller.BuildController(e.srcCtx, e.log, e.src)
		fail(err)
		e.bases = append(e.bases, s)
		d := podBase()
		fn := replicationcontroller.PodsFilter
		e.mk = func() (*resultView, error) {
			var r pod.Controller
			var err error
			if sc.With {
				r, err = join.RCPodsWith(e.jctx, s, d, func(o ...*corev1.ReplicationController) filter.ComparableFilter { return fn(o...) })
			} else {
				r, err = join.RCPods(e.jctx, s, d)
			}
			if err != nil {
				return nil, err
			}
			return podView(r), nil
		}
		e.expected = func() []world.Spec {
			var objs []*corev1.ReplicationController
			for _, o := range srcObjs() {
				objs = append(objs, world.Build("replicationcontroller", o).(*corev1.ReplicationController))
			}
			return e.agree(selectBy(fn(objs...), "pod", dstObjs()), refSelect("replicationcontroller", srcObjs(), dstObjs()))
		}
	case "rs":
		s, err := replicaset.BuildController(e.srcCtx, e.log, e.src)
		fail(err)
		e.bases = append(e.bases, s)
		d := podBase()
		fn := replicaset.PodsFilter
		e.mk = func() (*resultView, error) {
			var r pod.Controller
			var err error
			if sc.With {
				r, err = join.RSPodsWith(e.jctx, s, d, func(o ...*appsv1.ReplicaSet) filter.ComparableFilter { return fn(o...) })
			} else {
				r, err = join.RSPods(e.jctx, s, d)
			}
			if err != nil {
				return nil, err
			}
			return podView(r), nil
		}
		e.expected = func() []world.Spec {
			var objs []*appsv1.ReplicaSet
			for _, o := range srcObjs() {
				objs = append(objs, world.Build("replicaset", o).(*appsv1.ReplicaSet))
			}
			return e.agree(selectBy(fn(objs...), "pod", dstObjs()), refSelect("replicaset", srcObjs(), dstObjs()))
		}
	case "deployment":
		s, err := deployment.BuildController(e.srcCtx, e.log, e.src)
		fail(err)
		e.bases = append(e.bases, s)
		d := podBase()
		fn := deployment.PodsFilter
		e.mk = func() (*resultView, error) {
			var r pod.Controller
			var err error
			if sc.With {
				r, err = join.DeploymentPodsWith(e.jctx, s, d, func(o ...*appsv1.Deployment) filter.ComparableFilter { return fn(o...) })
			} else {
				r, err = join.DeploymentPods(e.jctx, s, d)
			}
			if err != nil {
				return nil, err
			}
			return podView(r), nil
		}
		e.expected = func() []world.Spec {
			var objs []*appsv1.Deployment
			for _, o := range srcObjs() {
				objs = append(objs, world.Build("deployment", o).(*appsv1.Deployment))
			}
			return e.agree(selectBy(fn(objs...), "pod", dstObjs()), refSelect("deployment", srcObjs(), dstObjs()))
		}
	case "daemonset":
		s, err := daemonset.BuildController(e.srcCtx, e.log, e.src)
		fail(err)
		e.bases = append(e.bases, s)
		d := podBase()
		fn := daemonset.PodsFilter
		e.mk = func() (*resultView, error) {
			var r pod.Controller
			var err error
			if sc.With {
				r, err = join.DaemonSetPodsWith(e.jctx, s, d, func(o ...*appsv1.DaemonSet) filter.ComparableFilter { return fn(o...) })
			} else {
				r, err = join.DaemonSetPods(e.jctx, s, d)
			}
			if err != nil {
				return nil, err
			}
			return podView(r), nil
		}
		e.expected = func() []world.Spec {
			var objs []*appsv1.DaemonSet
			for _, o := range srcObjs() {
				objs = append(objs, world.Build("daemonset", o).(*appsv1.DaemonSet))
			}
			return e.agree(selectBy(fn(objs...), "pod", dstObjs()), refSelect("daemonset", srcObjs(), dstObjs()))
		}
	case "statefulset":
		s, err := statefulset.BuildController(e.srcCtx, e.log, e.src)
		fail(err)
		e.bases = append(e.bases, s)
		d := podBase()
		fn := statefulset.PodsFilter
		e.mk = func() (*resultView, error) {
			var r pod.Controller
			var err error
			if sc.With {
				r, err = join.StatefulSetPodsWith(e.jctx, s, d, func(o ...*appsv1.StatefulSet) filter.ComparableFilter { return fn(o...) })
			} else {
				r, err = join.StatefulSetPods(e.jctx, s, d)
			}
			if err != nil {
				return nil, err
			}
			return podView(r), nil
		}
		e.expected = func() []world.Spec {
			var objs []*appsv1.StatefulSet
			for _, o := range srcObjs() {
				objs = append(objs, world.Build("statefulset", o).(*appsv1.StatefulSet))
			}
			return e.agree(selectBy(fn(objs...), "pod", dstObjs()), refSelect("statefulset", srcObjs(), dstObjs()))
		}
	case "job":
		s, err := job.BuildController(e.srcCtx, e.log, e.src)
		fail(err)
		e.bases = append(e.bases, s)
		d := podBase()
		fn := job.PodsFilter
		e.mk = func() (*resultView, error) {
			var r pod.Controller
			var err error
			if sc.With {
				r, err = join.JobPodsWith(e.jctx, s, d, func(o ...*batchv1.Job) filter.ComparableFilter { return fn(o...) })
			} else {
				r, err = join.JobPods(e.jctx, s, d)
			}
			if err != nil {
				return nil, err
			}
			return podView(r), nil
		}
		e.expected = func() []world.Spec {
			var objs []*batchv1.Job
			for _, o := range srcObjs() {
				objs = append(objs, world.Build("job", o).(*batchv1.Job))
			}
			return e.agree(selectBy(fn(objs...), "pod", dstObjs()), refSelect("job", srcObjs(), dstObjs()))
		}
	case "ingress-service":
		s, err := ingress.BuildController(e.srcCtx, e.log, e.src)
		fail(err)
		e.bases = append(e.bases, s)
		d, err := service.BuildController(e.ctx, e.log, e.dst)
		fail(err)
		e.bases = append(e.bases, d)
		fn := ingress.ServicesFilter
		e.mk = func() (*resultView, error) {
			var r service.Controller
			var err error
			if sc.With {
				r, err = join.IngressServicesWith(e.jctx, s, d, func(o ...*netv1beta1.Ingress) filter.ComparableFilter { return fn(o...) })
			} else {
				r, err = join.IngressServices(e.jctx, s, d)
			}
			if err != nil {
				return nil, err
			}
			return svcView(r), nil
		}
		e.expected = func() []world.Spec {
			var objs []*netv1beta1.Ingress
			for _, o := range srcObjs() {
				objs = append(objs, world.Build("ingress", o).(*netv1beta1.Ingress))
			}
			return e.agree(selectBy(fn(objs...), "service", dstObjs()), refSelect("ingress", srcObjs(), dstObjs()))
		}
	case "ingress-pods":
		s, err := ingress.BuildController(e.srcCtx, e.log, e.src)
		fail(err)
		e.bases = append(e.bases, s)
		m, err := service.BuildController(e.ctx, e.log, e.mid)
		fail(err)
		e.bases = append(e.bases, m)
		d := podBase()
		e.mk = func() (*resultView, error) {
			r, err := join.IngressPods(e.jctx, s, m, d)
			if err != nil {
				return nil, err
			}
			return podView(r), nil
		}
		e.expected = func() []world.Spec {
			var ings []*netv1beta1.Ingress
			for _, o := range srcObjs() {
				ings = append(ings, world.Build("ingress", o).(*netv1beta1.Ingress))
			}
			var svcs []*corev1.Service
			for _, o := range selectBy(ingress.ServicesFilter(ings...), "service", midObjs()) {
				svcs = append(svcs, world.Build("service", o).(*corev1.Service))
			}
			lib := selectBy(service.PodsFilter(svcs...), "pod", dstObjs())
			return e.agree(lib, refSelect("service", refSelect("ingress", srcObjs(), midObjs()), dstObjs()))
		}
	default:
		detsim.Fail("infra:scenario", "unknown join kind %q", sc.Kind)
	}
}

// liveLibNames: population of live library goroutines by name (creation
// function > call).  At two quiescent points of long-lived base controllers
// the population is the same; whatever a join created and did not stop shows
// up as a surplus.
func liveLibNames() map[string]int {
	out := map[string]int{}
	for _, g := range world.LiveLibGoroutines("world/", "scen/") {
		out[g.Name]++
	}
	return out
}

// oneJoin creates the join, drives the script, checks convergence, closes the
// join and checks that everything it created is gone while the bases live on.
func (e *joinEnv) oneJoin(acts []JAct, cycle int) {
	for i, b := range e.bases {
		if !world.WaitClosed(b.Ready(), time.Second) {
			detsim.Fail("not-ready", "base controller %d not ready", i)
		}
	}
	detsim.Settle()
	baseline := liveLibNames()
	e.jctx = e.ctx
	endOwn := func() {}
	if e.sc.OwnCtx {
		// a context of the join's own, ended as soon as the constructor returned:
		// a join lives until its result is closed, not until some set-up context ends
		e.jctx, endOwn = context.WithCancel(e.ctx)
	}
	if cycle > 0 && e.sc.HotCycles {
		// the join is built while a source change is on its way: whatever the
		// constructor looks at itself is older than what its monitor sees next
		detsim.Count("probe:join-created-with-source-change-in-flight")
		hot := world.Spec{NS: "n1", Name: "s1", Sel: map[string]string{"app": []string{"a", "b"}[cycle%2]}}
		if e.sc.Kind == "ingress-service" || e.sc.Kind == "ingress-pods" {
			hot.Sel, hot.Refs = nil, []string{[]string{"svc1", "svc2"}[cycle%2]}
		}
		e.src.Apply(hot)
	}
	rv, err := e.mk()
	endOwn()
	if err != nil {
		detsim.Fail("api-error", "creating the join over running controllers: %v", err)
	}
	mirror := (*world.Mirror)(nil)
	seeded := false
	closedSeen := false
	var pending []world.RecEvent
	err = rv.subscribe(func(typ string, o metav1.Object) {
		if o == nil {
			detsim.Fail("malformed-event", "join subscriber received an event with a nil resource")
		}
		ev := world.RecEvent{Type: typ, Obj: world.SpecOf(o)}
		detsim.Note("join <- %s", ev.Sig())
		if !seeded {
			pending = append(pending, ev)
			return
		}
		if detsim.TotalDrops() > 0 {
			return // a batch larger than the buffer was (legitimately) cut short somewhere: no strict replay
		}
		if msg := mirror.Apply(ev.Type, ev.Obj); msg != "" {
			detsim.Fail("malformed-event", "join result: %s", msg)
		}
	}, func() { closedSeen = true })
	if err != nil {
		detsim.Fail("api-error", "Subscribe on the join result: %v", err)
	}
	check := func(final bool) {
		detsim.Settle()
		detsim.HoldTime(true)
		defer detsim.HoldTime(false)
		if detsim.IsClosed(rv.ready()) {
			for i, b := range e.bases {
				if !detsim.IsClosed(b.Ready()) {
					detsim.Fail("join-ready-before-base", "the join is ready although base controller %d is not", i)
				}
			}
		}
		for i, b := range e.bases {
			if detsim.IsClosed(b.Done()) {
				detsim.Fail("base-died", "base controller %d shut down", i)
			}
		}
		if !detsim.IsClosed(rv.ready()) {
			if final {
				detsim.Fail("join-never-ready", "source and destination are ready and quiescent but the join is not ready")
			}
			return
		}
		objs, err := rv.list()
		if err != nil {
			detsim.Fail("api-error", "join Cache().List(): %v", err)
		}
		got := world.IDs(objs)
		seedSpecs := specsOfObjs(objs)
		world.Scribble(objs)
		want := world.SpecIDs(e.expected())
		if !world.SameIDs(got, want) {
			detsim.Fail("join-selection-wrong", "join(%s) cache differs from the destination objects selected by the current source objects\n  join    : %v\n  expected: %v\n  source  : %v\n  mid     : %v\n  dest    : %v", e.sc.Kind, got, want,
				world.SpecIDs(e.src.Objects()), world.SpecIDs(e.mid.Objects()), world.SpecIDs(e.dst.Objects()))
		}
		if !seeded {
			// seeded at a quiescent point: nothing is in flight, strict from here on
			mirror = world.NewMirror("join-subscriber", seedSpecs)
			mirror.Strict = true
			seeded = true
			pending = nil
		} else if m := world.SpecIDs(mirror.List()); detsim.TotalDrops() == 0 && !world.SameIDs(m, got) {
			detsim.Fail("mirror-diverged", "join result: replaying its events does not give its cache\n  mirror: %v\n  cache : %v", m, got)
		}
	}
	for _, a := range acts {
		switch a.Op {
		case "src-apply":
			e.src.Apply(world.Spec{NS: a.NS, Name: a.Name, Labels: a.Labels, Sel: a.Sel, Refs: a.Refs})
		case "src-delete":
			e.src.Delete(a.NS + "/" + a.Name)
		case "mid-apply":
			e.mid.Apply(world.Spec{NS: a.NS, Name: a.Name, Labels: a.Labels, Sel: a.Sel})
		case "mid-delete":
			e.mid.Delete(a.NS + "/" + a.Name)
		case "dst-apply":
			e.dst.Apply(world.Spec{NS: a.NS, Name: a.Name, Labels: a.Labels, Sel: a.Sel})
		case "dst-delete":
			e.dst.Delete(a.NS + "/" + a.Name)
		case "sleep":
			time.Sleep(ms(a.Ms))
		case "settle":
			detsim.Settle()
		case "check":
			check(false)
		}
	}
	detsim.FairMode()
	time.Sleep(1500 * time.Millisecond)
	check(true)
	// close the join result: everything it created stops, the bases keep running
	ret := make(chan struct{})
	go func() {
		rv.close()
		close(ret)
	}()
	if !world.WaitClosed(ret, time.Millisecond) {
		detsim.Fail("hang:Close", "Close() of the join result did not return\n%s", dumpLive())
	}
	if !world.WaitClosed(rv.done(), time.Millisecond) {
		detsim.Fail("hang:Done", "Done() of the join result did not close after Close()")
	}
	detsim.Settle()
	if !closedSeen {
		detsim.Fail("events-not-closed", "the join result is done but its subscriber's Events() channel was not closed")
	}
	after := liveLibNames()
	for _, g := range world.LiveLibGoroutines("world/", "scen/") {
		if after[g.Name] > baseline[g.Name] {
			detsim.Fail("leak:"+g.Name, "cycle %d: %d goroutine(s) [%s] (created at %s) are alive after the join result was closed, %d before the join was created: the join left something running\n%s", cycle, after[g.Name], g.Name, g.Site, baseline[g.Name], dumpLive())
		}
	}
	for i, b := range e.bases {
		if detsim.IsClosed(b.Done()) {
			detsim.Fail("base-died", "closing the join shut base controller %d down", i)
		}
	}
}

// sourceDies: the join is attached while the bases are still starting and the
// source base alone is shut down at a drawn scheduler step (before, at or
// after its readiness).  A join is a clone of its DESTINATION: losing the
// source must not close it, and must not touch the destination.
func (e *joinEnv) sourceDies() {
	e.jctx = e.ctx
	rv, err := e.mk()
	if err != nil {
		detsim.Fail("api-error", "creating the join over starting controllers: %v", err)
	}
	detsim.AtStep(detsim.Steps()+e.sc.SrcCancelAtStep, "join-source-cancel", func() {
		detsim.Count("probe:join-source-cancelled-early")
		e.srcCancel()
	})
	for i := 0; i < 8; i++ {
		time.Sleep(50 * time.Millisecond)
		detsim.Settle()
	}
	e.srcCancel() // (if the step was never reached)
	detsim.Settle()
	if !detsim.IsClosed(e.bases[0].Done()) {
		detsim.Fail("shutdown-not-cascaded", "the source controller's context was cancelled but it is still running")
	}
	dst := e.bases[len(e.bases)-1]
	if detsim.IsClosed(dst.Done()) {
		detsim.Fail("shutdown-spread", "the source controller died and took the destination controller with it")
	}
	if detsim.IsClosed(rv.done()) {
		detsim.Fail("shutdown-spread", "join(%s): the source controller died and the join result closed itself although neither it nor its destination was closed", e.sc.Kind)
	}
	if _, err := rv.list(); err != nil {
		detsim.Fail("survivor-not-functional", "join(%s): Cache().List() of the join result after the source died: %v", e.sc.Kind, err)
	}
	rv.close()
	if !world.WaitClosed(rv.done(), time.Millisecond) {
		detsim.Fail("hang:Close", "closing the join result after its source died did not complete\n%s", dumpLive())
	}
	for _, b := range e.bases {
		b.Close()
	}
	detsim.Settle()
	checkNoLeak()
}

// deadBase: a join constructor called with one base controller already shut
// down.  Shutdown is confined to the subtree of what was closed: the other
// base controllers - independent trees - keep running and keep serving.
func (e *joinEnv) deadBase() {
	for i, b := range e.bases {
		if !world.WaitClosed(b.Ready(), time.Second) {
			detsim.Fail("not-ready", "base controller %d not ready", i)
		}
	}
	idx := len(e.bases) - 1
	switch e.sc.DeadBase {
	case "src":
		idx = 0
	case "mid":
		if len(e.bases) == 3 {
			idx = 1
		}
	}
	e.bases[idx].Close()
	if !world.WaitClosed(e.bases[idx].Done(), time.Millisecond) {
		detsim.Fail("hang:Done", "base controller %d: Done() open after Close()", idx)
	}
	detsim.Count("probe:join-built-over-a-dead-base")
	e.jctx = e.ctx
	rv, err := e.mk()
	detsim.Settle()
	if err == nil {
		rv.close()
		detsim.Settle()
	}
	for i, b := range e.bases {
		if i == idx {
			continue
		}
		if detsim.IsClosed(b.Done()) {
			detsim.Fail("shutdown-spread", "join(%s) was built with base controller %d shut down (constructor returned %v): base controller %d, an independent tree, has been shut down with it", e.sc.Kind, idx, err, i)
		}
		res := reflect.ValueOf(b).MethodByName("Cache").Call(nil)[0].MethodByName("List").Call(nil)
		if !res[1].IsNil() {
			detsim.Fail("survivor-not-functional", "join(%s) was built with base controller %d shut down: Cache().List() of base controller %d now fails with %v", e.sc.Kind, idx, i, res[1].Interface())
		}
	}
	for _, b := range e.bases {
		b.Close()
	}
	detsim.Settle()
	checkNoLeak()
}

func specsOfObjs(objs []metav1.Object) []world.Spec {
	var out []world.Spec
	for _, o := range objs {
		out = append(out, world.SpecOf(o))
	}
	return out
}

func runJoin(sci interface{}) {
	sc := sci.(*Join)
	if sc.Bufsiz > 0 {
		setBufsiz(sc.Bufsiz)
	} else {
		setBufsiz(100)
	}
	e := &joinEnv{sc: sc, log: world.NewLog(false)}
	var cancel context.CancelFunc
	e.ctx, cancel = context.WithCancel(logutil.NewContext(context.Background(), e.log))
	defer cancel()
	e.srcCtx, e.srcCancel = context.WithCancel(e.ctx)
	e.setup()
	if sc.DeadBase != "" {
		e.deadBase()
		return
	}
	if sc.SrcCancelAtStep > 0 {
		e.sourceDies()
		return
	}
	e.oneJoin(sc.Acts, 0)
	for c := 1; c <= sc.Cycles; c++ {
		e.oneJoin(nil, c)
	}
	if sc.CloseDst {
		// shutdown cascades down into a join: closing the destination base closes
		// the join result (its descendant) and everything the join created
		e.jctx = e.ctx
		rv, err := e.mk()
		if err != nil {
			detsim.Fail("api-error", "creating the join over running controllers: %v", err)
		}
		detsim.Settle()
		dst := e.bases[len(e.bases)-1]
		dst.Close()
		if !world.WaitClosed(rv.done(), time.Millisecond) {
			detsim.Fail("shutdown-not-cascaded", "the destination controller was closed but the join built on it is still running\n%s", dumpLive())
		}
		rv.list() // must return (ErrNotRunning or a result), never block
	}
	// the long-lived bases still work: shut them down cleanly
	for _, b := range e.bases {
		b.Close()
	}
	detsim.Settle()
	checkNoLeak()
}

func describeJoin(sci interface{}) string {
	sc := sci.(*Join)
	return fmt.Sprintf("join=%s with=%v src=%d mid=%d dst=%d acts=%d cycles=%d strategy=%s", sc.Kind, sc.With, len(sc.SrcInit), len(sc.MidInit), len(sc.DstInit), len(sc.Acts), sc.Cycles, sc.Sim.Strategy.Kind)
}

// addDecisiveBurst: destinations for both selectors exist and one source flips
// between them several times without a pause; the join must end with the
// selection of the LAST selector.
func addDecisiveBurst(rng *rand.Rand, sc *Join) {
	sc.DstInit = append(sc.DstInit,
		world.Spec{NS: "n1", Name: "p1", Labels: map[string]string{"app": "a"}},
		world.Spec{NS: "n1", Name: "p2", Labels: map[string]string{"app": "b"}})
	sc.SrcInit = append(sc.SrcInit, world.Spec{NS: "n1", Name: "s1", Sel: map[string]string{"app": "a"}})
	at := rng.Intn(len(sc.Acts) + 1)
	var burst []JAct
	v := "a"
	for k := 2 + rng.Intn(4); k > 0; k-- {
		if v == "a" {
			v = "b"
		} else {
			v = "a"
		}
		burst = append(burst, JAct{Op: "src-apply", NS: "n1", Name: "s1", Sel: map[string]string{"app": v}})
	}
	burst = append(burst, JAct{Op: "check"})
	sc.Acts = append(sc.Acts[:at:at], append(burst, sc.Acts[at:]...)...)
}

// genJoinOverrun: the join's source monitor falls behind by more than its
// (small) event buffer while one source flips between two selectors; the
// destination does not change.  Events are lost on the way to the monitor,
// which is allowed - but every event it does handle recomputes the selection
// from the whole source cache, so at quiescence the join must still show the
// selection of what the source controller holds.
func genJoinOverrun(rng *rand.Rand, sc *Join) {
	sc.Bufsiz = pickInt(rng, 2, 3, 4, 6, 8)
	sc.SrcInit = []world.Spec{{NS: "n1", Name: "s1", Sel: map[string]string{"app": "a"}}}
	sc.DstInit = []world.Spec{
		{NS: "n1", Name: "p1", Labels: map[string]string{"app": "a"}},
		{NS: "n1", Name: "p2", Labels: map[string]string{"app": "b"}},
		{NS: "n1", Name: "p3", Labels: map[string]string{"app": "c"}}}
	sc.Acts = nil
	for round := 1 + rng.Intn(3); round > 0; round-- {
		for k := sc.Bufsiz + 1 + rng.Intn(3*sc.Bufsiz); k > 0; k-- {
			a := JAct{Op: "src-apply", NS: "n1", Name: pick(rng, "s1", "s1", "s1", "s2"), Sel: map[string]string{"app": pick(rng, "a", "b", "c")}}
			if rng.Intn(8) == 0 {
				a = JAct{Op: "src-delete", NS: "n1", Name: "s2"}
			}
			sc.Acts = append(sc.Acts, a)
		}
		sc.Acts = append(sc.Acts, JAct{Op: "check"})
	}
	sc.Sim = SimCfg{PermuteMaps: true, MaxSteps: 200000, EstSteps: 6000}
	sc.Sim.Strategy = detsim.Strategy{Kind: "starve", StarveName: pick(rng, "NewMonitor>m.run", "NewMonitor>m.run", "newSubscription>s.run"), StarveK: pickInt(rng, 20, 60, 200)}
	if rng.Intn(4) == 0 {
		sc.Sim.Strategy = detsim.Strategy{Kind: "pct", PCTDepth: 1 + rng.Intn(3)}
	}
}

func genC09(g GenCtx) interface{} {
	return genJoin(g, joinKinds[g.Idx%len(joinKinds)], g.Idx%8 == 5) // every join is exercised in turn
}

func genJoin(g GenCtx, kind string, overrun bool) *Join {
	rng := g.Rng
	sc := &Join{Prop: g.Prop}
	sc.Kind = kind
	sc.With = sc.Kind != "ingress-pods" && rng.Intn(3) == 0
	sels := []map[string]string{nil, {"app": "a"}, {"app": "b"}, {"app": "a", "tier": "x"},
		// match expressions (label-selector kinds; plain-map kinds ignore them): selectors
		// made only of negative requirements select objects that lack the key
		{"_expr": "tier notin x"}, {"_expr": "!tier"}, {"app": "a", "_expr": "tier notin y"}, {"_expr": "app in a|b;!App"},
		// value lists that grow and shrink around each other
		{"_expr": "app in a|b"}, {"_expr": "app in a"}, {"_expr": "app in b"}, {"_expr": "tier notin x|y"},
		// fields that are not part of the selection rule: a workload scaled to zero still selects
		{"app": "a", "_replicas": "0"}, {"app": "b", "_replicas": "0"}, {"app": "a", "_replicas": "3"}}
	ns := func() string { return pick(rng, "n1", "n1", "n2") }
	svcName := func() string { return pick(rng, "svc1", "svc2", "svc3") }
	refs := func() []string {
		var r []string
		for i := pickInt(rng, 0, 1, 2, 2, 3, 4); i > 0; i-- {
			r = append(r, svcName())
		}
		return r
	}
	isIng := sc.Kind == "ingress-service" || sc.Kind == "ingress-pods"
	srcAct := func() JAct {
		if rng.Intn(4) == 0 {
			return JAct{Op: "src-delete", NS: ns(), Name: pick(rng, "s1", "s2")}
		}
		a := JAct{Op: "src-apply", NS: ns(), Name: pick(rng, "s1", "s2")}
		if isIng {
			a.Refs = refs()
		} else {
			a.Sel = sels[rng.Intn(len(sels))]
		}
		return a
	}
	svcAct := func(op string) JAct {
		if rng.Intn(4) == 0 {
			return JAct{Op: op + "-delete", NS: ns(), Name: svcName()}
		}
		return JAct{Op: op + "-apply", NS: ns(), Name: svcName(), Sel: sels[rng.Intn(len(sels))], Labels: randLabels(rng)}
	}
	podAct := func() JAct {
		if rng.Intn(4) == 0 {
			return JAct{Op: "dst-delete", NS: ns(), Name: pick(rng, "p1", "p2", "p3")}
		}
		return JAct{Op: "dst-apply", NS: ns(), Name: pick(rng, "p1", "p2", "p3"), Labels: randLabels(rng)}
	}
	dstAct := podAct
	if sc.Kind == "ingress-service" {
		dstAct = func() JAct { return svcAct("dst") }
	}
	toSpec := func(a JAct) world.Spec { return world.Spec{NS: a.NS, Name: a.Name, Labels: a.Labels, Sel: a.Sel, Refs: a.Refs} }
	for i := rng.Intn(3); i > 0; i-- {
		if a := srcAct(); a.Op == "src-apply" {
			sc.SrcInit = append(sc.SrcInit, toSpec(a))
		}
	}
	for i := rng.Intn(4); i > 0; i-- {
		if a := dstAct(); a.Op == "dst-apply" {
			sc.DstInit = append(sc.DstInit, toSpec(a))
		}
	}
	if sc.Kind == "ingress-pods" {
		for i := rng.Intn(3); i > 0; i-- {
			if a := svcAct("mid"); a.Op == "mid-apply" {
				sc.MidInit = append(sc.MidInit, toSpec(a))
			}
		}
	}
	n := rng.Intn(25)
	for i := 0; i < n; i++ {
		switch r := rng.Intn(13); {
		case r == 12:
			// a burst of changes to one source object without a pause: the
			// refilters they cause must take effect in source order
			name := pick(rng, "s1", "s2")
			nsb := ns()
			for k := 2 + rng.Intn(3); k > 0; k-- {
				a := JAct{Op: "src-apply", NS: nsb, Name: name}
				if isIng {
					a.Refs = refs()
				} else {
					a.Sel = sels[1+rng.Intn(len(sels)-1)]
				}
				sc.Acts = append(sc.Acts, a)
			}
		case r < 4:
			sc.Acts = append(sc.Acts, srcAct())
		case r < 8:
			sc.Acts = append(sc.Acts, dstAct())
		case r < 9 && sc.Kind == "ingress-pods":
			sc.Acts = append(sc.Acts, svcAct("mid"))
		case r < 10:
			sc.Acts = append(sc.Acts, JAct{Op: "sleep", Ms: pickInt(rng, 0, 1, 100, 61000)})
		case r < 11:
			sc.Acts = append(sc.Acts, JAct{Op: "settle"})
		default:
			sc.Acts = append(sc.Acts, JAct{Op: "check"})
		}
	}
	if !isIng && rng.Intn(3) == 0 {
		addDecisiveBurst(rng, sc)
	}
	if !isIng && rng.Intn(15) == 0 {
		// many destination objects: sizes are a knob
		for i, n := 0, pickInt(rng, 40, 130, 300); i < n; i++ {
			sc.DstInit = append(sc.DstInit, world.Spec{NS: pick(rng, "n1", "n2"), Name: "bulk" + itoa(i), Labels: randLabels(rng)})
		}
	}
	if !isIng && overrun {
		genJoinOverrun(rng, sc)
		return sc
	}
	sc.OwnCtx = rng.Intn(4) == 0
	if rng.Intn(8) == 0 {
		sc.SrcCancelAtStep = 1 + rng.Intn(pickInt(rng, 60, 200, 500))
	}
	if sc.SrcCancelAtStep == 0 && rng.Intn(12) == 0 {
		sc.DeadBase = pick(rng, "src", "mid", "dst", "dst")
	}
	sc.CloseDst = rng.Intn(3) == 0
	if rng.Intn(3) == 0 {
		sc.Cycles = 1 + rng.Intn(20)
		sc.HotCycles = rng.Intn(4) != 0
		if rng.Intn(2) == 0 {
			sc.Cycles = 1 + rng.Intn(3)
		}
	}
	sc.Sim = SimCfg{Strategy: randStrategy(rng, libGoroutines), PermuteMaps: true, MaxSteps: 200000, EstSteps: 6000}
	sc.Sim.Strategy.StallPermille = 0
	return sc
}

func init() {
	Registry["C09"] = &Family{
		Gen:      genC09,
		New:      func() interface{} { return &Join{} },
		Run:      runJoin,
		Sim:      func(sc interface{}) SimCfg { return sc.(*Join).Sim },
		Describe: describeJoin,
		Nontrivial: func(sci interface{}, res *detsim.Result) bool {
			sc := sci.(*Join)
			return len(sc.Acts)+sc.Cycles > 0 && res.Contended > 10
		},
	}
}
