package scen

import (
	"context"
	"fmt"
	"math/rand"
	"strconv"
	"time"

	"detsim"
	"kcsim/world"

	"github.com/boz/kcache"
	"github.com/boz/kcache/filter"
	corev1 "k8s.io/api/core/v1"
	metav1 "k8s.io/apimachinery/pkg/apis/meta/v1"
)

// CacheOp is one operation on the bare cache actor.
type CacheOp struct {
	Op     string           `json:"op"`            // sync | update | refilter
	Typ    string           `json:"typ,omitempty"` // update: create | update | delete
	Obj    world.Spec       `json:"obj,omitempty"`
	List   []world.Spec     `json:"list,omitempty"`
	Filter world.FilterSpec `json:"filter,omitempty"`
	// Flip (sync, stateful runs): right before this sync the application's filter
	// object changes what it accepts - no Refilter, the sync is what reconciles
	Flip *world.FilterSpec `json:"flip,omitempty"`
}

// CacheScen drives the cache actor directly (through the verif-tagged export
// hook) and compares every result with the reference cache.
type CacheScen struct {
	Prop    string           `json:"prop"`
	Filter  world.FilterSpec `json:"filter"`
	Ops     []CacheOp        `json:"ops"`
	Readers int              `json:"readers"`
	Sim     SimCfg           `json:"sim"`
	// Tree (C02 only): instead of one cache driven directly, a controller with a
	// tree of subscriptions whose subscribers replay what they receive
	Tree *Tree `json:"tree,omitempty"`
	// ValueObjs: objects are uncomparable values of an application type (see mkObj)
	ValueObjs bool `json:"value_objs,omitempty"`
	// Stateful: the cache's filter is one application object whose verdicts the
	// application changes in place (CacheOp.Flip), re-submitted by pointer on Refilter
	Stateful bool `json:"stateful,omitempty"`
}

var cacheKeys = [][2]string{{"n1", "a"}, {"", "a"}, {"n1", "b"}, {"n2", "a"}, {"n-1", "a"}, {"n", "1-a"}} // "" = a cluster-scoped object (nodes have no namespace); the last two collide under a "-" join
var weirdVersions = []string{"", "0", "-1", "+3", "007", "abc", "9999999999999999999", "1.5", " 4",
	// zero-padded and other-base spellings: decimal is decimal on every path
	"017", "016", "018", "0017", "0x11", "0b11", "0o17", "1_0", "1e1"}

func genSpec(rng *rand.Rand, nkeys int) world.Spec {
	k := cacheKeys[rng.Intn(nkeys)]
	if rng.Intn(25) == 0 {
		k = [2]string{"n1", pick(rng, "system:node", "Upper_Case", "a b")} // not DNS-1123
	}
	if k[0] == "n-1" || k[0] == "n" {
		// the two "colliding" slots of the universe hold this run's confusable pair
		pair := confusablePairs[GenIdx%len(confusablePairs)]
		if k[0] == "n-1" {
			k = pair[0]
		} else {
			k = pair[1]
		}
	}
	s := world.Spec{NS: k[0], Name: k[1], Labels: randLabels(rng), UID: pick(rng, "", "", "u1", "u1", "u2")}
	if rng.Intn(8) == 0 {
		s.RV = weirdVersions[rng.Intn(len(weirdVersions))]
	} else {
		s.RV = strconv.Itoa(rng.Intn(8))
	}
	return s
}

func genList(rng *rand.Rand, nkeys int) []world.Spec {
	var l []world.Spec
	switch rng.Intn(6) {
	case 0:
		return nil
	case 1:
		return []world.Spec{}
	}
	n := rng.Intn(6)
	for i := 0; i < n; i++ {
		l = append(l, genSpec(rng, nkeys))
	}
	return l
}

func genCacheOp(rng *rand.Rand, nkeys int) CacheOp {
	switch r := rng.Intn(10); {
	case r < 4:
		return CacheOp{Op: "sync", List: genList(rng, nkeys)}
	case r < 8:
		return CacheOp{Op: "update", Typ: pick(rng, "create", "update", "update", "delete"), Obj: genSpec(rng, nkeys)}
	default:
		return CacheOp{Op: "refilter", List: genList(rng, nkeys), Filter: randFilter(rng)}
	}
}

// sweepAlphabet: every operation of a small alphabet, tried after a shared
// random prefix (one-step neighbourhood of sampled states).
func sweepAlphabet() []CacheOp {
	var ops []CacheOp
	for _, k := range cacheKeys[:2] {
		for _, rv := range []string{"0", "1", "2", "3", "4", "abc"} {
			for _, lab := range []map[string]string{{"app": "a"}, {"app": "b"}} {
				o := world.Spec{NS: k[0], Name: k[1], RV: rv, Labels: lab}
				ops = append(ops,
					CacheOp{Op: "sync", List: []world.Spec{o}},
					CacheOp{Op: "update", Typ: "update", Obj: o},
					CacheOp{Op: "update", Typ: "delete", Obj: o},
					CacheOp{Op: "refilter", List: []world.Spec{o}, Filter: world.FilterSpec{Op: "labels", K: "app", V: "a"}},
					CacheOp{Op: "refilter", List: []world.Spec{o}, Filter: world.FilterSpec{Op: "null"}},
				)
			}
		}
	}
	return ops
}

// genCacheBulk: populations of 70..300 objects, mass removals that leave a
// handful of survivors listed at stale / equal / newer versions (some twice),
// redeliveries, and mass re-creation - thresholds on sizes and on the ratio of
// removed to surviving entries are crossed in both directions.
func genCacheBulk(rng *rand.Rand, sc *CacheScen) {
	n := pickInt(rng, 70, 100, 130, 200)
	if rng.Intn(40) == 0 {
		n = pickInt(rng, 1100, 4200, 5000) // thresholds in the thousands exist, too
	}
	key := func(i int) world.Spec {
		return world.Spec{NS: "n1", Name: fmt.Sprintf("bulk%03d", i), Labels: map[string]string{"app": pick(rng, "a", "a", "b")}}
	}
	full := func(v int) []world.Spec {
		l := make([]world.Spec, 0, n)
		for i := 0; i < n; i++ {
			o := key(i)
			o.RV = strconv.Itoa(v)
			l = append(l, o)
		}
		return l
	}
	for round := 1 + rng.Intn(3); round > 0; round-- {
		sc.Ops = append(sc.Ops, CacheOp{Op: "sync", List: full(pickInt(rng, 10, 10, 12))})
		hot := []int{rng.Intn(n), rng.Intn(n), rng.Intn(n), rng.Intn(n)}
		for i := rng.Intn(6); i > 0; i-- {
			o := key(hot[rng.Intn(len(hot))])
			o.RV = strconv.Itoa(5 + rng.Intn(25))
			sc.Ops = append(sc.Ops, CacheOp{Op: "update", Typ: pick(rng, "create", "update", "update", "delete"), Obj: o})
		}
		// the mass removal: few survivors, mostly the hot keys
		var surv []world.Spec
		for i := rng.Intn(12); i > 0; i-- {
			k := hot[rng.Intn(len(hot))]
			if rng.Intn(3) == 0 {
				k = rng.Intn(n)
			}
			o := key(k)
			o.RV = strconv.Itoa(5 + rng.Intn(25))
			surv = append(surv, o)
		}
		if rng.Intn(3) == 0 {
			sc.Ops = append(sc.Ops, CacheOp{Op: "refilter", List: surv, Filter: randFilter(rng)})
		} else {
			sc.Ops = append(sc.Ops, CacheOp{Op: "sync", List: surv})
		}
		for i := rng.Intn(5); i > 0; i-- {
			o := key(hot[rng.Intn(len(hot))])
			o.RV = strconv.Itoa(5 + rng.Intn(25))
			sc.Ops = append(sc.Ops, CacheOp{Op: "update", Typ: pick(rng, "create", "update", "update", "delete"), Obj: o})
		}
	}
}

func genCache(g GenCtx) interface{} {
	sc := genCache0(g).(*CacheScen)
	if g.Idx%7 == 5 && sc.Filter.Op != "flaky" {
		sc.Stateful = true
		frng := rand.New(rand.NewSource(g.Seed*7919 + int64(g.Idx)))
		for i := range sc.Ops {
			if sc.Ops[i].Op == "sync" && frng.Intn(2) == 0 {
				f := randFilter(frng)
				if f.Op == "flaky" {
					continue
				}
				sc.Ops[i].Flip = &f
			}
		}
	}
	return sc
}

func genCache0(g GenCtx) interface{} {
	sc := &CacheScen{Prop: g.Prop, ValueObjs: g.Idx%9 == 4}
	alpha := sweepAlphabet()
	if g.Idx%2 == 1 {
		// sweep mode: the prefix depends on idx / len(alpha) only, the last
		// operation enumerates the alphabet
		base := (g.Idx / 2) / len(alpha)
		which := (g.Idx / 2) % len(alpha)
		prng := rand.New(rand.NewSource(g.Seed*1000003 + int64(base)))
		fam := []world.FilterSpec{{Op: "null"}, {Op: "labels", K: "app", V: "a"}, {Op: "labels", K: "app", V: "b"}, {Op: "all"}}
		sc.Filter = fam[prng.Intn(len(fam))]
		n := prng.Intn(7)
		for i := 0; i < n; i++ {
			op := alpha[prng.Intn(len(alpha))]
			sc.Ops = append(sc.Ops, op)
		}
		sc.Ops = append(sc.Ops, alpha[which])
		sc.Sim = SimCfg{Strategy: detsim.Strategy{Kind: "uniform"}, PermuteMaps: true, MaxSteps: 100000}
		return sc
	}
	rng := g.Rng
	sc.Filter = randFilter(rng)
	if g.Idx%32 == 4 {
		if rng.Intn(2) == 0 {
			sc.Filter = world.FilterSpec{Op: "null"}
		}
		genCacheBulk(rng, sc)
	} else {
		nkeys := 1 + rng.Intn(6)
		n := 1 + rng.Intn(12)
		if g.Idx%64 == 8 {
			// a long-lived cache: hundreds of syncs / refilters on one cache
			// (counters, generations, anything that wraps or accumulates)
			n = 260 + rng.Intn(300)
		}
		for i := 0; i < n; i++ {
			sc.Ops = append(sc.Ops, genCacheOp(rng, nkeys))
		}
	}
	if rng.Intn(4) == 0 {
		// resource versions are 64-bit revisions: the same history far up the
		// number line (around 2^31, 2^32, 2^53 and just below 2^63)
		base := []int64{1<<31 - 4, 1<<32 - 4, 1<<53 - 4, 1<<63 - 64}[rng.Intn(4)]
		shift := func(o *world.Spec) {
			if v, err := strconv.Atoi(o.RV); err == nil && v >= 0 && v < 50 && strconv.Itoa(v) == o.RV {
				o.RV = strconv.FormatInt(base+int64(v), 10)
			}
		}
		for i := range sc.Ops {
			shift(&sc.Ops[i].Obj)
			for j := range sc.Ops[i].List {
				shift(&sc.Ops[i].List[j])
			}
		}
	}
	if rng.Intn(25) == 0 {
		sc.Filter = world.FilterSpec{Op: "flaky", V: pick(rng, "2", "3", "5")}
	}
	sc.Readers = rng.Intn(3)
	sc.Sim = SimCfg{Strategy: randStrategy(rng, []string{"newCache>c.run", "reader"}), PermuteMaps: true, MaxSteps: 100000}
	sc.Sim.Strategy.StallPermille = 0
	return sc
}

// valueObjs: the objects handed to the cache are VALUES of an application type
// that embeds the API object and carries a slice - a legitimate metav1.Object
// that cannot be compared with == (set at the start of every run).
var valueObjs bool

type notedPod struct {
	*corev1.Pod
	notes []string
}

func mkObj(s world.Spec) metav1.Object {
	if valueObjs {
		return notedPod{Pod: world.Build("pod", s).(*corev1.Pod), notes: []string{"seen"}}
	}
	return world.BuildMeta("pod", s)
}

func objsOf(specs []world.Spec) []metav1.Object {
	if specs == nil {
		return nil
	}
	out := make([]metav1.Object, 0, len(specs))
	for _, s := range specs {
		out = append(out, mkObj(s))
	}
	return out
}

func recOf(evs []kcache.Event) []world.RecEvent {
	out := make([]world.RecEvent, 0, len(evs))
	for _, e := range evs {
		if e == nil || e.Resource() == nil {
			detsim.Fail("malformed-event", "nil event or resource returned by the cache")
		}
		out = append(out, world.RecEvent{Type: string(e.Type()), Obj: world.SpecOf(e.Resource())})
	}
	return out
}

func hasDupKeys(list []world.Spec) bool {
	seen := map[string]bool{}
	for _, s := range list {
		if seen[s.Key()] {
			return true
		}
		seen[s.Key()] = true
	}
	return false
}

// latitudeKeys: keys for which one list holds a rejected version followed by
// an accepted version that is not newer.  "No newer version has been seen" can
// be read either way there (the cache cannot remember versions of objects it
// does not hold; the update path has the same shape): the model adopts the
// implementation's outcome for these keys, subject to the invariants.
func latitudeKeys(list []world.Spec, pred func(world.Spec) bool) map[string]bool {
	out := map[string]bool{}
	for i, a := range list {
		av, err := strconv.Atoi(a.RV)
		if err != nil || pred(a) {
			continue
		}
		for _, b := range list[i+1:] {
			bv, err := strconv.Atoi(b.RV)
			if err != nil || b.Key() != a.Key() || !pred(b) {
				continue
			}
			if bv <= av {
				out[a.Key()] = true
			}
		}
	}
	return out
}

func sigMultiset(evs []string) map[string]int {
	m := map[string]int{}
	for _, e := range evs {
		m[e]++
	}
	return m
}

func sameMultiset(a, b map[string]int) bool {
	if len(a) != len(b) {
		return false
	}
	for k, v := range a {
		if b[k] != v {
			return false
		}
	}
	return true
}

func refSigs(evs []world.RefEvent) []string {
	var out []string
	for _, e := range evs {
		if e.Type == "delete" {
			out = append(out, "delete "+e.Obj.Key())
		} else {
			out = append(out, e.Type+" "+e.Obj.Key()+"@"+e.Obj.RV)
		}
	}
	return out
}

// runCacheFlaky: the structural half of C02 under a filter whose answers are
// not a function of the object.  Nothing can be said about WHICH objects are
// cached; but the events of every operation, replayed strictly over the
// content before it (Create only if absent, Update only if present and
// strictly newer, Delete only if present), must give the content after it,
// and Get must agree with List.
func runCacheFlaky(sc *CacheScen) {
	ctx, cancel := context.WithCancel(context.Background())
	defer cancel()
	c := kcache.VerifNewCache(ctx, world.NewLog(false), make(chan struct{}), sc.Filter.Build())
	var prev []world.Spec
	for i, op := range sc.Ops {
		var evs []kcache.Event
		var err error
		switch op.Op {
		case "sync":
			evs, err = c.Sync(objsOf(op.List))
		case "refilter":
			evs, err = c.Refilter(objsOf(op.List), sc.Filter.Build())
		case "update":
			et := kcache.EventTypeUpdate
			switch op.Typ {
			case "create":
				et = kcache.EventTypeCreate
			case "delete":
				et = kcache.EventTypeDelete
			}
			evs, err = c.Update(kcache.NewEvent(et, mkObj(op.Obj)))
		default:
			continue
		}
		if err != nil {
			detsim.Fail("cache-op-error", "op %d %s on a running cache returned %v", i, op.Op, err)
		}
		m := world.NewMirror("replay", prev)
		m.Strict = true
		got := recOf(evs)
		for _, e := range got {
			if msg := m.Apply(e.Type, e.Obj); msg != "" {
				detsim.Fail("malformed-event", "op %d %s (filter that answers differently from call to call): %s\n  content before: %v\n  events: %v", i, op.Op, msg, world.SpecIDs(prev), world.Sigs(got))
			}
		}
		objs, lerr := c.List()
		if lerr != nil {
			detsim.Fail("cache-read-error", "List() on a running cache: %v", lerr)
		}
		after := specsOfObjs(objs)
		world.Scribble(objs)
		if a, b := world.SpecIDs(m.List()), world.SpecIDs(after); !world.SameIDs(a, b) {
			detsim.Fail("events-not-a-delta", "op %d %s (filter that answers differently from call to call): replaying the returned events over the previous content does not give the new content\n  replay: %v\n  cache : %v\n  events: %v", i, op.Op, a, b, world.Sigs(got))
		}
		for k, o := range after {
			if k >= 12 {
				break // (bulk populations: a sample)
			}
			g, gerr := c.Get(o.NS, o.Name)
			if gerr != nil || g == nil || world.IDOf(g) != o.ID() {
				detsim.Fail("cache-content-wrong", "after op %d %s: List() shows %s but Get returned %v (%v)", i, op.Op, o.ID(), g, gerr)
			}
		}
		prev = after
	}
}

func runCache(sci interface{}) {
	sc := sci.(*CacheScen)
	valueObjs = sc.ValueObjs
	if valueObjs {
		detsim.Count("probe:objects-of-an-uncomparable-value-type")
	}
	if sc.Tree != nil {
		runTree(sc.Tree)
		return
	}
	if sc.Filter.Op == "flaky" {
		runCacheFlaky(sc)
		return
	}
	pendingReads = nil
	ctx, cancel := context.WithCancel(context.Background())
	defer cancel()
	stopch := make(chan struct{})
	log := world.NewLog(false)
	var sf *world.StatefulFilter
	var c0 filter.Filter = sc.Filter.Build()
	if sc.Stateful {
		sf = world.NewStateful(c0)
		c0 = sf
		detsim.Count("probe:stateful-cache-filter")
	}
	c := kcache.VerifNewCache(ctx, log, stopch, c0)
	ref := world.NewRefCache(sc.Filter.Pred())

	// concurrent readers: every List() must equal the content before or after
	// one of the operations that overlap it
	opsDone := 0
	var states [][]string
	states = append(states, world.SpecIDs(ref.List()))
	stopReaders := false
	readersLeft := sc.Readers
	readerDone := make(chan struct{})
	for r := 0; r < sc.Readers; r++ {
		go func() {
			defer func() {
				readersLeft--
				if readersLeft == 0 {
					close(readerDone)
				}
			}()
			for n := 0; !stopReaders && n < 4*len(sc.Ops)+4; n++ {
				from := opsDone
				objs, err := c.List()
				if err != nil {
					detsim.Fail("cache-read-error", "List() on a running cache: %v", err)
				}
				to := opsDone + 1
				pendingReads = append(pendingReads, pendingRead{from, to, world.IDs(objs)})
				world.Scribble(objs)
				detsim.Yield("reader")
			}
		}()
	}

	// every key the script mentions (plus the fixed ones)
	universe := append([][2]string(nil), cacheKeys...)
	seenKey := map[[2]string]bool{}
	for _, k := range universe {
		seenKey[k] = true
	}
	for _, op := range sc.Ops {
		for _, o := range append([]world.Spec{op.Obj}, op.List...) {
			k := [2]string{o.NS, o.Name}
			if o.Name != "" && !seenKey[k] && len(universe) < 24 {
				seenKey[k] = true
				universe = append(universe, k)
			}
		}
	}
	for i, op := range sc.Ops {
		before := world.NewMirror("replay", ref.List())
		before.Strict = true
		var evs []kcache.Event
		var err error
		var want []world.RefEvent
		desc := ""
		minimal := true
		var lat map[string]bool
		var prevItems map[string]world.Spec
		switch op.Op {
		case "sync":
			desc = fmt.Sprintf("sync(%v)", world.SpecIDs(op.List))
			if sf != nil && op.Flip != nil {
				desc = fmt.Sprintf("filter becomes %s; ", op.Flip.String()) + desc
				sf.Set(op.Flip.Build())
				ref.Pred = op.Flip.Pred()
			}
			evs, err = c.Sync(objsOf(op.List))
			lat = latitudeKeys(op.List, ref.Pred)
			prevItems = ref.Clone().Items
			want = ref.Sync(op.List)
			minimal = !hasDupKeys(op.List)
		case "refilter":
			desc = fmt.Sprintf("refilter(%v, %s)", world.SpecIDs(op.List), op.Filter.String())
			if sf != nil {
				sf.Set(op.Filter.Build())
				evs, err = c.Refilter(objsOf(op.List), sf)
			} else {
				evs, err = c.Refilter(objsOf(op.List), op.Filter.Build())
			}
			lat = latitudeKeys(op.List, op.Filter.Pred())
			prevItems = ref.Clone().Items
			want = ref.Refilter(op.List, op.Filter.Pred())
			minimal = !hasDupKeys(op.List)
		case "update":
			desc = fmt.Sprintf("update(%s %s)", op.Typ, op.Obj.ID())
			et := kcache.EventTypeUpdate
			switch op.Typ {
			case "create":
				et = kcache.EventTypeCreate
			case "delete":
				et = kcache.EventTypeDelete
			}
			evs, err = c.Update(kcache.NewEvent(et, mkObj(op.Obj)))
			staleDelete := false
			if op.Typ == "delete" {
				if cur, ok := ref.Items[op.Obj.Key()]; ok {
					cv, _ := strconv.Atoi(cur.RV)
					if ov, e := strconv.Atoi(op.Obj.RV); e == nil && ov < cv {
						staleDelete = true
					}
				}
			}
			if staleDelete && len(evs) == 0 {
				// a delete older than the cached version: left unspecified; the
				// implementation ignored it, the model adopts that
				want = nil
			} else {
				want = ref.Update(op.Typ, op.Obj)
			}
		default:
			continue
		}
		if err != nil {
			detsim.Fail("cache-op-error", "op %d %s on a running cache returned %v", i, desc, err)
		}
		got := recOf(evs)
		// C02: events replay exactly from the content before to the content after
		for _, e := range got {
			if msg := before.Apply(e.Type, e.Obj); msg != "" {
				detsim.Fail("malformed-event", "op %d %s: %s\n  events: %v", i, desc, msg, world.Sigs(got))
			}
		}
		objs, lerr := c.List()
		if lerr != nil {
			detsim.Fail("cache-read-error", "List() on a running cache: %v", lerr)
		}
		if len(lat) > 0 {
			// adopt the implementation's outcome for latitude keys, if it is one
			// of the admissible ones: absent, or an accepted object that was
			// listed for that key or was cached before
			for k := range lat {
				delete(ref.Items, k)
			}
			for _, o := range objs {
				so := world.SpecOf(o)
				if !lat[so.Key()] {
					continue
				}
				admissible := false
				if p, ok := prevItems[so.Key()]; ok && p.ID() == so.ID() {
					admissible = true
				}
				for _, l := range op.List {
					if l.ID() == so.ID() {
						admissible = true
					}
				}
				if !admissible || !ref.Pred(so) {
					detsim.Fail("cache-content-wrong", "after op %d %s: %s is cached but was neither listed nor cached before, or the filter rejects it", i, desc, so.ID())
				}
				ref.Items[so.Key()] = so
			}
		}
		wantIDs := world.SpecIDs(ref.List())
		states = append(states, wantIDs)
		opsDone = i + 1
		gotIDs := world.IDs(objs)
		world.Scribble(objs)
		// C01: content equals the reference
		if !world.SameIDs(gotIDs, wantIDs) {
			detsim.Fail("cache-content-wrong", "after op %d %s (filter %s)\n  cache    : %v\n  reference: %v\n  history: %s", i, desc, sc.Filter.String(), gotIDs, wantIDs, descOps(sc.Ops[:i+1]))
		}
		if m := world.SpecIDs(before.List()); !world.SameIDs(m, gotIDs) {
			detsim.Fail("events-not-a-delta", "op %d %s: replaying the returned events over the previous content does not give the new content\n  replay: %v\n  cache : %v\n  events: %v", i, desc, m, gotIDs, world.Sigs(got))
		}
		// C02: exact, minimal delta (multiset of events equals the reference's)
		if minimal && !sameMultiset(sigMultiset(world.Sigs(got)), sigMultiset(refSigs(want))) {
			detsim.Fail("events-not-minimal", "op %d %s\n  events   : %v\n  reference: %v", i, desc, world.Sigs(got), refSigs(want))
		}
		// C01: every cached object satisfies the current filter; Get agrees with List
		for _, k := range universe {
			o, gerr := c.Get(k[0], k[1])
			if gerr != nil {
				detsim.Fail("cache-read-error", "Get() on a running cache: %v", gerr)
			}
			r, present := ref.Items[k[0]+"/"+k[1]]
			switch {
			case o == nil && present:
				detsim.Fail("cache-content-wrong", "after op %d %s: Get(%s/%s) = nil, reference has %s", i, desc, k[0], k[1], r.ID())
			case o != nil && !present:
				detsim.Fail("cache-content-wrong", "after op %d %s: Get(%s/%s) = %s, reference has nothing", i, desc, k[0], k[1], world.IDOf(o))
			case o != nil && world.IDOf(o) != r.ID():
				detsim.Fail("cache-content-wrong", "after op %d %s: Get(%s/%s) = %s, reference has %s", i, desc, k[0], k[1], world.IDOf(o), r.ID())
			}
			if o != nil && !ref.Pred(world.SpecOf(o)) {
				detsim.Fail("cached-object-rejected-by-filter", "after op %d %s: %s is cached but the current filter rejects it", i, desc, world.IDOf(o))
			}
			// GetObject(x) is Get(key of x): the lookup is by key, whatever else the
			// caller's copy of the object says (other labels, another version)
			probe := world.Spec{NS: k[0], Name: k[1], RV: "1", Labels: []map[string]string{nil, {"app": "a"}, {"app": "b", "tier": "x"}, {"tier": "y"}}[(i+len(k[1]))%4]}
			o2, gerr2 := c.GetObject(world.BuildMeta("pod", probe))
			if gerr2 != nil {
				detsim.Fail("cache-read-error", "GetObject() on a running cache: %v", gerr2)
			}
			if (o == nil) != (o2 == nil) || o != nil && world.IDOf(o) != world.IDOf(o2) {
				detsim.Fail("cache-content-wrong", "after op %d %s: GetObject(%s) = %v but Get(%s/%s) = %v", i, desc, probe.ID(), world.IDOf(o2), k[0], k[1], world.IDOf(o))
			}
		}
	}
	stopReaders = true
	if sc.Readers > 0 {
		<-readerDone
	}
	for _, pr := range pendingReads {
		ok := false
		for i := pr.from; i <= pr.to && i < len(states); i++ {
			if world.SameIDs(pr.got, states[i]) {
				ok = true
			}
		}
		if !ok {
			detsim.Fail("torn-read", "a concurrent List() returned %v, which is not the cache content before or after any operation it overlapped (ops %d..%d)", pr.got, pr.from, pr.to)
		}
	}
	pendingReads = nil
	if len(sc.Ops)%2 == 0 {
		cancel() // the cache also stops with its context
	} else {
		close(stopch)
	}
	if !world.WaitClosed(c.Done(), time.Millisecond) {
		detsim.Fail("hang:cache-stop", "cache did not stop after its stop channel closed")
	}
	if _, err := c.List(); err == nil {
		detsim.Fail("api-after-shutdown", "List() on a stopped cache returned no error")
	}
	// every other entry point returns instead of blocking, too
	probe := world.BuildMeta("pod", world.Spec{NS: "n1", Name: "a", RV: "1"})
	if _, err := c.Get("n1", "a"); err == nil {
		detsim.Fail("api-after-shutdown", "Get() on a stopped cache returned no error")
	}
	if _, err := c.Sync(nil); err == nil {
		detsim.Fail("api-after-shutdown", "sync on a stopped cache returned no error")
	}
	if _, err := c.Update(kcache.NewEvent(kcache.EventTypeUpdate, probe)); err == nil {
		detsim.Fail("api-after-shutdown", "update on a stopped cache returned no error")
	}
	if _, err := c.Refilter(nil, sc.Filter.Build()); err == nil {
		detsim.Fail("api-after-shutdown", "refilter on a stopped cache returned no error")
	}
}

type pendingRead struct {
	from, to int
	got      []string
}

var pendingReads []pendingRead

func descOps(ops []CacheOp) string {
	s := ""
	for _, op := range ops {
		switch op.Op {
		case "sync":
			s += fmt.Sprintf("sync%v; ", world.SpecIDs(op.List))
		case "refilter":
			s += fmt.Sprintf("refilter(%v,%s); ", world.SpecIDs(op.List), op.Filter.String())
		case "update":
			s += fmt.Sprintf("update(%s %s); ", op.Typ, op.Obj.ID())
		}
	}
	return s
}

func init() {
	fam := &Family{
		Gen: genCache,
		New: func() interface{} { return &CacheScen{} },
		Run: runCache,
		Sim: func(sc interface{}) SimCfg {
			if t := sc.(*CacheScen).Tree; t != nil {
				return t.Sim
			}
			return sc.(*CacheScen).Sim
		},
		Describe: func(sci interface{}) string {
			sc := sci.(*CacheScen)
			if sc.Tree != nil {
				return "tree: " + describeTree(sc.Tree)
			}
			return fmt.Sprintf("filter=%s readers=%d ops: %s", sc.Filter.String(), sc.Readers, descOps(sc.Ops))
		},
		Nontrivial: func(sci interface{}, res *detsim.Result) bool {
			sc := sci.(*CacheScen)
			if sc.Tree != nil {
				return len(sc.Tree.Acts) > 1
			}
			return len(sc.Ops) >= 2
		},
	}
	Registry["C01"] = fam
	// C02 runs the same oracles over a generator biased towards inputs that must
	// change nothing: every operation is redelivered with probability 1/2, lists
	// are re-synced unchanged, stale versions, deletes of unknown keys and
	// rejected unknown objects are over-represented.
	fam2 := *fam
	fam2.Gen = func(g GenCtx) interface{} {
		if g.Idx%16 == 6 {
			// "controller and filtered subscriptions publish exactly the returned
			// events": subscribers that replay what they receive below filtered
			// nodes, with equal-filter Refilter calls while parent events are in flight
			t := genC06base(g).(*Tree)
			if g.Idx%32 == 6 {
				sameRefilters(g.Rng, t, 2)
			} else {
				passersBy(g.Rng, t, 2)
			}
			if g.Rng.Intn(3) == 0 {
				// relists that have something to delete (the watch loses frames), from a
				// server whose complete replies carry a continue token nobody asked for
				t.StrayContinue = true
				t.PeriodMs = pickInt(g.Rng, 50, 200)
				t.Faults = map[string]world.Fault{"watch-drop": {Budget: 2 + g.Rng.Intn(3), Denom: 2}}
				for i := range t.Acts {
					// (quiet periods were drawn for the period the script had before)
					if t.Acts[i].Op == "sleep" && t.Acts[i].Ms > 40*t.PeriodMs {
						t.Acts[i].Ms = 40 * t.PeriodMs
					}
				}
			}
			return &CacheScen{Prop: g.Prop, Tree: t}
		}
		sc := genCache(g).(*CacheScen)
		if g.Idx%2 == 1 {
			return sc // the alphabet sweep is shared
		}
		rng := g.Rng
		var ops []CacheOp
		for _, op := range sc.Ops {
			ops = append(ops, op)
			switch rng.Intn(6) {
			case 0, 1, 2:
				ops = append(ops, op) // redelivery
			case 3:
				if op.Op == "update" {
					// the same object again as the other wire type, and one version older
					o := op
					o.Typ = pick(rng, "create", "update")
					ops = append(ops, o)
					if v, err := strconv.Atoi(op.Obj.RV); err == nil && v > 0 {
						o.Obj.RV = strconv.Itoa(v - 1)
						ops = append(ops, o)
					}
				}
			case 4:
				k := cacheKeys[rng.Intn(len(cacheKeys))]
				ops = append(ops, CacheOp{Op: "update", Typ: "delete", Obj: world.Spec{NS: k[0], Name: "ghost-" + k[1], RV: "3"}})
			}
		}
		if len(ops) > 24 {
			ops = ops[:24]
		}
		sc.Ops = ops
		return sc
	}
	Registry["C02"] = &fam2
}
