package scen

import (
	"fmt"
	"math/rand"
	"strconv"
	"time"

	"detsim"
	"kcsim/world"
)

// Act is one step of the root goroutine's script.
type Act struct {
	Op     string            `json:"op"` // apply | delete | sleep | settle | check
	NS     string            `json:"ns,omitempty"`
	Name   string            `json:"name,omitempty"`
	Labels map[string]string `json:"labels,omitempty"`
	Ms     int               `json:"ms,omitempty"`
}

// Ctrl is the scenario of the C03 / C04 checks: a real controller over the
// simulated API server, a server history, a fault plan and one witness
// subscriber.
type Ctrl struct {
	Prop       string                 `json:"prop"`
	Bufsiz     int                    `json:"bufsiz"`
	PeriodMs   int                    `json:"period_ms"` // 0 = relisting disabled (10000h)
	Filter     world.FilterSpec       `json:"filter"`
	FlipTo     *world.FilterSpec      `json:"flip_to,omitempty"` // the controller-level filter is stateful and accepts this instead once the server is quiet: the next relist reconciles
	Unstructured bool                 `json:"unstructured,omitempty"` // the server speaks the dynamic client's representation
	StrayContinue bool                `json:"stray_continue,omitempty"`
	Twin         bool                 `json:"twin,omitempty"`         // the builder is used again for a second controller over another server
	HeadFrame    string               `json:"head_frame,omitempty"`   // every watch stream opens with this non-object frame
	Bystander  bool                   `json:"bystander,omitempty"` // a second, unrelated controller in the same process whose every Watch call hangs: controllers share nothing
	BaseRV     int                    `json:"base_rv,omitempty"` // the server's version counter starts here (0 = 10)
	Init       []world.Spec           `json:"init"`
	ListLatMs  [2]int                 `json:"list_lat_ms"`
	VaryLat    bool                   `json:"vary_lat"`
	Faults     map[string]world.Fault `json:"faults"`
	WatchMode  string                 `json:"watch_mode"`
	Acts       []Act                  `json:"acts"`
	LogYield   bool                   `json:"log_yield"`
	Sim        SimCfg                 `json:"sim"`
}

const noRelist = 10000 * time.Hour

func (sc *Ctrl) period() time.Duration {
	if sc.PeriodMs <= 0 {
		return noRelist
	}
	return ms(sc.PeriodMs)
}

func genActs(rng *rand.Rand, n, nkeys int, sleeps []int) []Act {
	var acts []Act
	for i := 0; i < n; i++ {
		ns, name := randKey(rng, nkeys)
		switch r := rng.Intn(10); {
		case r < 6:
			acts = append(acts, Act{Op: "apply", NS: ns, Name: name, Labels: randLabels(rng)})
		case r < 7:
			acts = append(acts, Act{Op: "delete", NS: ns, Name: name})
		case r < 8:
			// delete and re-create back to back: a stale Delete frame applied
			// after a list that already shows the new incarnation is destructive
			acts = append(acts, Act{Op: "delete", NS: ns, Name: name}, Act{Op: "apply", NS: ns, Name: name, Labels: randLabels(rng)})
			if rng.Intn(2) == 0 {
				// ... and a relist is due while those frames are still in flight
				acts = append(acts, Act{Op: "sleep", Ms: sleeps[len(sleeps)-2]})
			}
		default:
			acts = append(acts, Act{Op: "sleep", Ms: sleeps[rng.Intn(len(sleeps))]})
		}
		if rng.Intn(12) == 0 {
			acts = append(acts, Act{Op: "check"})
		}
	}
	return acts
}

func hasCompact(acts []Act) bool {
	for _, a := range acts {
		if a.Op == "compact" {
			return true
		}
	}
	return false
}

// bulkInit adds n further objects: sizes are a knob like any other (a
// batching, chunking or memoising change only shows above its threshold).
func bulkInit(rng *rand.Rand, n int) []world.Spec {
	var out []world.Spec
	for i := 0; i < n; i++ {
		out = append(out, world.Spec{NS: nsUniverse[i%2], Name: "bulk" + strconv.Itoa(i), Labels: randLabels(rng)})
	}
	return out
}

// (populations in the thousands are used where they are cheap: the first list of C08, the bare cache of C01/C02)
func bulkSize(rng *rand.Rand) int { return pickInt(rng, 17, 40, 101, 129, 257, 300, 520) }

func genInit(rng *rand.Rand, nkeys int) []world.Spec {
	var init []world.Spec
	for k := 0; k < nkeys; k++ {
		if rng.Intn(2) == 0 {
			init = append(init, world.Spec{NS: nsUniverse[k%2], Name: nameUniverse[(k/2)%2], Labels: randLabels(rng)})
		}
	}
	return init
}

// genC03Stale: a healthy watch, short refresh period and bursts of
// delete + re-create right before a relist, with one stage of the watch
// pipeline starved: frames of the old watch epoch are in flight when a list is
// consumed.  They must be discarded with the epoch (a stale Delete applied
// after the list that already shows the new incarnation loses the object until
// the next relist).
func genC03Stale(g GenCtx) interface{} {
	rng := g.Rng
	sc := &Ctrl{Prop: g.Prop, Bufsiz: 100}
	sc.BaseRV = world.BaseRVs[rng.Intn(len(world.BaseRVs))]
	sc.PeriodMs = pickInt(rng, 50, 200)
	p := sc.PeriodMs
	sc.ListLatMs = [2]int{pickInt(rng, 0, 0, p/4), pickInt(rng, 0, p/4, p/2)}
	nkeys := 1 + rng.Intn(3)
	sc.Init = genInit(rng, nkeys)
	for i := 3 + rng.Intn(12); i > 0; i-- {
		ns, name := randKey(rng, nkeys)
		sc.Acts = append(sc.Acts, Act{Op: "delete", NS: ns, Name: name}, Act{Op: "apply", NS: ns, Name: name, Labels: randLabels(rng)})
		if rng.Intn(3) == 0 {
			ns2, name2 := randKey(rng, nkeys)
			sc.Acts = append(sc.Acts, Act{Op: "apply", NS: ns2, Name: name2, Labels: randLabels(rng)})
		}
		sc.Acts = append(sc.Acts, Act{Op: "sleep", Ms: pickInt(rng, p/3, p/2, p, p)})
		if rng.Intn(2) == 0 {
			sc.Acts = append(sc.Acts, Act{Op: "check"})
		}
	}
	sc.Sim = SimCfg{PermuteMaps: true, MaxSteps: 120000, EstSteps: 3000, NewTimers: rng.Intn(4) == 0}
	sc.Sim.Strategy = detsim.Strategy{Kind: "starve", StarveName: pick(rng, "c.pump", "newWatchSession>s.run", "newWatcher>w.run", "Create>c.run"), StarveK: pickInt(rng, 5, 10, 30)}
	if rng.Intn(3) == 0 {
		sc.Sim.Strategy = detsim.Strategy{Kind: "pct", PCTDepth: 1 + rng.Intn(3)}
	}
	// work takes no simulated time, so frames are only still in flight when a
	// list returns if the clock moves while they are pending: the stall move
	sc.Sim.Strategy.StallPermille = pickInt(rng, 10, 30, 60)
	sc.Sim.Strategy.StallMaxMs = p
	return sc
}

func genC03(g GenCtx) interface{} {
	if g.Idx%4 == 3 {
		return genC03Stale(g)
	}
	rng := g.Rng
	sc := &Ctrl{Prop: g.Prop}
	sc.BaseRV = world.BaseRVs[rng.Intn(len(world.BaseRVs))]
	sc.Bufsiz = pickInt(rng, 2, 3, 5, 10, 100)
	sc.Unstructured = rng.Intn(8) == 0
	sc.Twin = rng.Intn(6) == 0
	sc.StrayContinue = rng.Intn(6) == 0
	if rng.Intn(6) == 0 {
		sc.HeadFrame = []string{"bookmark", "status", "unknown-type"}[rng.Intn(3)]
	}
	sc.PeriodMs = pickInt(rng, 50, 200, 1000, 10000, 60000)
	if g.Idx%8 == 1 {
		sc.PeriodMs = pickInt(rng, 50, 200, 1000)
	}
	if rng.Intn(3) > 0 {
		sc.Filter = randFilter(rng)
	}
	if rng.Intn(5) == 0 {
		f := randFilter(rng)
		sc.FlipTo = &f
	}
	nkeys := 1 + rng.Intn(4)
	sc.Init = genInit(rng, nkeys)
	if rng.Intn(12) == 0 {
		sc.Init = append(sc.Init, bulkInit(rng, bulkSize(rng))...)
	}
	p := sc.PeriodMs
	lat := []int{0, 0, p / 4, p / 2, p * 95 / 100, p * 105 / 100, 2 * p, 5 * p}
	sc.ListLatMs = [2]int{lat[rng.Intn(len(lat))] / 2, lat[rng.Intn(len(lat))] / 2}
	sc.VaryLat = rng.Intn(2) == 0
	sc.Faults = map[string]world.Fault{}
	kinds := []string{"watch-connect-error", "watch-connect-timeout", "watch-connect-canceled-error", "watch-connect-api-error", "watch-close-mid", "watch-close-after-burst", "watch-close-idle", "watch-status-frame", "watch-expired-frame", "watch-connect-expired",
		"watch-bookmark", "watch-drop", "watch-dup", "watch-replay", "watch-replay-idle", "watch-badobj", "watch-connect-delay", "watch-connect-hang"}
	if rng.Intn(5) > 0 {
		for _, k := range kinds {
			if rng.Intn(3) == 0 {
				sc.Faults[k] = world.Fault{Budget: 1 + rng.Intn(3), Denom: 2 + rng.Intn(5)}
			}
		}
	}
	if g.Idx%8 == 1 {
		// the cache is pushed away from an unchanging server: only a relist
		// that is actually reconciled brings it back
		sc.Faults["watch-replay-idle"] = world.Fault{Budget: 2 + rng.Intn(3), Denom: 1 + rng.Intn(2)}
	}
	switch rng.Intn(10) {
	case 0:
		sc.WatchMode = "error"
	case 1:
		sc.WatchMode = "silent"
	case 2:
		sc.WatchMode = "hang"
	}
	sc.Acts = genActs(rng, rng.Intn(41), nkeys, []int{0, 1, 10, p / 3, p, 2 * p})
	if rng.Intn(5) == 0 && len(sc.Acts) > 0 {
		// the server compacts its event log: a reconnect from an older version
		// gets "410 Gone" until the next relist resets the watch
		at := rng.Intn(len(sc.Acts))
		sc.Acts = append(sc.Acts[:at], append([]Act{{Op: "compact"}}, sc.Acts[at:]...)...)
	}
	sc.LogYield = rng.Intn(4) == 0
	sc.Sim = SimCfg{Strategy: randStrategy(rng, libGoroutines), NewTimers: rng.Intn(4) == 0, PermuteMaps: true, MaxSteps: 120000, EstSteps: 3000}
	sc.Sim.Strategy.StallMaxMs = 2 * p
	return sc
}

func genC04(g GenCtx) interface{} {
	rng := g.Rng
	sc := &Ctrl{Prop: g.Prop}
	sc.BaseRV = world.BaseRVs[rng.Intn(len(world.BaseRVs))]
	sc.Bufsiz = pickInt(rng, 2, 3, 4, 8, 16, 100)
	sc.Bystander = rng.Intn(4) == 0
	sc.Unstructured = rng.Intn(8) == 0
	sc.Twin = rng.Intn(6) == 0
	sc.StrayContinue = rng.Intn(6) == 0
	if rng.Intn(6) == 0 {
		sc.HeadFrame = []string{"bookmark", "status", "unknown-type"}[rng.Intn(3)]
	}
	sc.PeriodMs = 0
	if rng.Intn(3) == 0 {
		sc.Filter = randFilter(rng)
	}
	nkeys := 1 + rng.Intn(4)
	sc.Init = genInit(rng, nkeys)
	sc.ListLatMs = [2]int{pickInt(rng, 0, 0, 5), pickInt(rng, 0, 0, 5)}
	sc.Faults = map[string]world.Fault{}
	kinds := []string{"watch-connect-error", "watch-connect-timeout", "watch-connect-canceled-error", "watch-connect-api-error", "watch-close-mid", "watch-close-after-burst", "watch-close-idle", "watch-status-frame", "watch-expired-frame", "watch-connect-expired", "watch-bookmark"}
	for _, k := range kinds {
		if rng.Intn(2) == 0 {
			sc.Faults[k] = world.Fault{Budget: 1 + rng.Intn(3), Denom: 2 + rng.Intn(4)}
		}
	}
	// bursts of at most Bufsiz/4 writes between pauses that let the pipeline drain
	burst := sc.Bufsiz / 4
	if burst < 1 {
		burst = 1
	}
	n := 1 + rng.Intn(60)
	if rng.Intn(20) == 0 {
		// a long stream: several times the real buffer size through one watch epoch
		n = 250 + rng.Intn(400)
		sc.Bufsiz = 100
		burst = 25
	}
	inBurst := 0
	for i := 0; i < n; i++ {
		ns, name := randKey(rng, nkeys)
		if rng.Intn(4) == 0 {
			sc.Acts = append(sc.Acts, Act{Op: "delete", NS: ns, Name: name})
		} else {
			sc.Acts = append(sc.Acts, Act{Op: "apply", NS: ns, Name: name, Labels: randLabels(rng)})
		}
		inBurst++
		if inBurst >= burst || rng.Intn(3) == 0 {
			// a pause: long enough for a pending reconnect (1 s) half of the time
			sc.Acts = append(sc.Acts, Act{Op: "sleep", Ms: pickInt(rng, 1, 10, 500, 1100, 2500)})
			sc.Acts = append(sc.Acts, Act{Op: "settle"})
			inBurst = 0
		}
	}
	sc.LogYield = rng.Intn(4) == 0
	sc.Sim = SimCfg{Strategy: randStrategy(rng, []string{"Create>c.run", "newWatcher>w.run", "newWatchSession>s.run", "c.pump", "newSubscription>s.run"}),
		NewTimers: rng.Intn(4) == 0, PermuteMaps: true, MaxSteps: 120000, EstSteps: 3000}
	sc.Sim.Strategy.StallPermille = pickInt(rng, 0, 0, 5)
	sc.Sim.Strategy.StallMaxMs = 1500
	return sc
}

func runCtrl(sci interface{}) {
	sc := sci.(*Ctrl)
	setBufsiz(sc.Bufsiz)
	srv := world.NewServer("pod")
	srv.SetBaseRV(sc.BaseRV)
	srv.Unstructured = sc.Unstructured
	srv.HeadFrame = sc.HeadFrame
	srv.StrayContinue = sc.StrayContinue
	srv.F = world.NewFaults(sc.Faults)
	srv.ListLatency = [2]time.Duration{ms(sc.ListLatMs[0]), ms(sc.ListLatMs[1])}
	srv.VaryLatency = sc.VaryLat
	srv.WatchMode = sc.WatchMode
	for _, o := range sc.Init {
		srv.Apply(o)
	}
	h := world.NewH(srv, sc.Filter, sc.period(), sc.LogYield)
	h.RootSwitch = sc.FlipTo != nil
	if sc.Twin {
		// one builder, two controllers, two API servers: whatever the first one does
		// later (reconnects, relists) goes to ITS server
		h.TwinSrv = world.NewServer("pod")
		h.TwinSrv.Apply(world.Spec{NS: "other", Name: "x"})
		defer func() {
			if h.Twin != nil {
				h.Twin.Close()
			}
		}()
	}
	h.NoRelist = sc.PeriodMs <= 0
	// no hand-off can overflow while the whole server log (initial objects
	// included: a reconnect from a stale version re-sends all of it) fits a buffer
	h.ExpectNoOverflow = sc.Bufsiz >= 100 && len(sc.Init)+len(sc.Acts) <= 60
	if sc.Bystander {
		srv2 := world.NewServer("pod")
		srv2.WatchMode = "hang"
		srv2.Apply(world.Spec{NS: "other", Name: "x"})
		h2 := world.NewH(srv2, world.FilterSpec{}, noRelist, false)
		h2.NoRelist = true
		h2.Start()
	}
	h.Start()
	detsim.SetInvariant(h.Invariant)
	maxLat := ms(sc.ListLatMs[0] + sc.ListLatMs[1])
	detsim.HoldTime(true)
	if !world.WaitClosed(h.Ctrl.Ready(), maxLat+time.Second) {
		detsim.Fail("not-ready", "controller not ready %v after start although the first list succeeded\n%s", maxLat+time.Second, srv.Summary())
	}
	wit, err := h.MakeNode(nil, "sub", world.FilterSpec{}, "eager")
	if err != nil {
		detsim.Fail("subscribe-failed", "Subscribe on a running controller: %v", err)
	}
	detsim.Settle()
	h.SeedMirrors() // the witness replays strictly from here on
	detsim.HoldTime(false)
	dead := sc.WatchMode != ""
	healthy := len(sc.Faults) == 0 && sc.WatchMode == "" && !hasCompact(sc.Acts)

	checkMid := func() {
		detsim.Settle()
		detsim.HoldTime(true)
		defer detsim.HoldTime(false)
		if healthy && !h.WatchLossPossible() {
			// (d) behaviourally: with a healthy watch nothing is lost between the
			// list snapshot and the watch restart, so at quiescence the cache
			// equals the server without waiting for a relist
			h.CheckRootEqualsServer("healthy-watch-missed-events")
		}
		if detsim.IsClosed(h.Ctrl.Done()) {
			detsim.Fail("controller-died", "controller shut down although no list failed: Error()=%v\n%s", h.Ctrl.Error(), srv.Summary())
		}
		h.CheckTree("")
		if dead {
			// (a) dead-watch exactness: the cache is exactly the last consumed list
			var last *world.ListCall
			for _, l := range srv.Lists {
				if l.Done && l.Outcome == "ok" {
					last = l
				}
			}
			if last != nil {
				got, _, ok := world.ListIDs(h.Ctrl.Cache())
				want := world.SpecIDs(world.FilterSpecs(last.Snapshot, h.RootPred))
				if ok && !world.SameIDs(got, want) {
					detsim.Fail("list-not-applied-exactly", "watch is dead; after list#%d was consumed the cache must equal that list's accepted objects\n  cache: %v\n  list : %v\n%s", last.N, got, want, srv.Summary())
				}
			}
		}
	}

	for _, a := range sc.Acts {
		switch a.Op {
		case "apply":
			srv.Apply(world.Spec{NS: a.NS, Name: a.Name, Labels: a.Labels})
		case "delete":
			srv.Delete(a.NS + "/" + a.Name)
		case "compact":
			srv.Compact()
			detsim.Count("fault:server-compaction")
		case "sleep":
			time.Sleep(ms(a.Ms))
		case "settle":
			detsim.Settle()
			detsim.HoldTime(true)
			h.SeedMirrors()
			detsim.HoldTime(false)
		case "check":
			checkMid()
		}
	}

	if healthy {
		// once more at the end of the script, before any further relist can repair things
		checkMid()
	}
	// quiescence: the server stops changing, injected faults stop
	srv.F.Stop()
	detsim.FairMode()
	T := detsim.Elapsed()
	nl := len(srv.Lists)
	detsim.Note("quiesce at %v after %d list calls", T, nl)
	if sc.PeriodMs > 0 {
		// C03 (b): after at most one further relist the cache equals the server
		per := sc.period()
		bound := 3*(maxLat+per+per/5) + 3*time.Second
		deadline := T + bound
		var fresh *world.ListCall
		for fresh == nil {
			for _, l := range srv.Lists {
				if l.N > nl && l.Done {
					fresh = l
					break
				}
			}
			if fresh != nil {
				break
			}
			if detsim.Elapsed() > deadline {
				detsim.Fail("no-relist-after-quiesce", "no list call started and completed within %v after the server quiesced (period %v, list latency <= %v)\n%s", bound, per, maxLat, srv.Summary())
			}
			step := per / 4
			if step < time.Millisecond {
				step = time.Millisecond
			}
			time.Sleep(step)
		}
		detsim.Settle()
		if detsim.IsClosed(h.Ctrl.Done()) {
			detsim.Fail("controller-died", "controller shut down although no list failed: Error()=%v\n%s", h.Ctrl.Error(), srv.Summary())
		}
		h.CheckRootEqualsServer("not-converged-after-relist")
		checkWatchProtocol(h, sc)
		if sc.FlipTo != nil {
			// the filter's verdicts change while server and watch are silent: "each
			// completed list leaves the cache equal to that list's accepted objects"
			h.FlipRoot(*sc.FlipTo)
			nl2 := len(srv.Lists)
			deadline := detsim.Elapsed() + bound
			for done := false; !done; {
				for _, l := range srv.Lists {
					if l.N > nl2 && l.Done {
						done = true
					}
				}
				if !done {
					if detsim.Elapsed() > deadline {
						detsim.Fail("no-relist-after-quiesce", "no list call started and completed within %v (period %v, list latency <= %v)\n%s", bound, per, maxLat, srv.Summary())
					}
					time.Sleep(per/4 + time.Millisecond)
				}
			}
			detsim.Settle()
			h.CheckRootEqualsServer("not-converged-after-relist")
		}
	} else {
		// C04: only the watch can deliver; a pending reconnect fires within the
		// retry delay (1 s), far below the refresh period
		waitQuiet(recoveryBound, func() bool { return h.WatchLossPossible() || rootInSync(h) })
		detsim.Settle()
		if detsim.IsClosed(h.Ctrl.Done()) {
			detsim.Fail("controller-died", "controller shut down although no list failed: Error()=%v\n%s", h.Ctrl.Error(), srv.Summary())
		}
		if h.WatchLossPossible() {
			// more events in flight than the buffers hold: outside C04's premise
			// (the loss is repaired by the next relist, which C03 checks)
			detsim.Count("probe:c04-run-outside-premise(overflow)")
		} else {
			h.CheckRootEqualsServer("cache-diverged-after-reconnect")
		}
		checkResumeVersions(h)
	}
	h.CheckTree("")
	_ = wit
}

// checkWatchProtocol: C03 (d) - every Watch call starts at the version of a
// completed list or of an event already sent on an earlier session (never at
// an invented version).  The stronger behavioural half of (d) is checked in
// checkMid for healthy runs.
func checkWatchProtocol(h *world.H, sc *Ctrl) {
	srv := h.Srv
	// every completed list is reconciled and the watch is restarted at ITS
	// version (no list result is passed over because the stream is "ahead")
	if !detsim.IsClosed(h.Ctrl.Done()) {
		for _, l := range srv.Lists {
			if !l.Done || l.Outcome != "ok" {
				continue
			}
			found := false
			for _, w := range srv.Watches {
				if w.RV == strconv.Itoa(l.SnapRV) && w.At >= l.End {
					found = true
				}
			}
			if !found {
				detsim.Fail("list-not-followed-by-watch-reset", "list#%d completed with resourceVersion %d but no Watch call at that version followed: its result was not reconciled (the watch is restarted at the version of every list that is applied)\n%s", l.N, l.SnapRV, srv.Summary())
			}
		}
	}
	ok := map[string]bool{}
	for _, l := range srv.Lists {
		if l.Done && l.Outcome == "ok" {
			ok[strconv.Itoa(l.SnapRV)] = true
		}
	}
	for _, w := range srv.Watches {
		if !ok[w.RV] {
			detsim.Fail("bad-watch-version", "watch#%d started at resourceVersion %q, which is neither the version of a completed list nor of an event sent on an earlier session\n%s", w.N, w.RV, srv.Summary())
		}
		for _, rv := range w.Sent {
			ok[strconv.Itoa(rv)] = true
		}
	}
}

// checkResumeVersions: C04 - with relisting disabled every Watch call resumes
// at the list version or at the version of an event the server already sent,
// never going backwards and never below what subscribers already received.
func checkResumeVersions(h *world.H) {
	srv := h.Srv
	sent := map[int]bool{}
	for _, l := range srv.Lists {
		if l.Done && l.Outcome == "ok" {
			sent[l.SnapRV] = true
		}
	}
	prev := -1
	for _, w := range srv.Watches {
		v, err := strconv.Atoi(w.RV)
		if err != nil {
			detsim.Fail("bad-resume-version", "watch#%d used resourceVersion %q", w.N, w.RV)
		}
		if !sent[v] {
			detsim.Fail("bad-resume-version", "watch#%d resumed at %d, which is neither the list version nor the version of any event sent on an earlier session\n%s", w.N, v, srv.Summary())
		}
		if v < w.Floor {
			detsim.Fail("resume-before-received-events", "watch#%d resumed at %d although subscribers had already received version %d: a reconnect must resume after the last event received\n%s", w.N, v, w.Floor, srv.Summary())
		}
		if v < prev {
			detsim.Fail("resume-version-regressed", "watch#%d resumed at %d after an earlier call at %d\n%s", w.N, v, prev, srv.Summary())
		}
		prev = v
		for _, rv := range w.Sent {
			sent[rv] = true
		}
	}
}

func describeCtrl(sci interface{}) string {
	sc := sci.(*Ctrl)
	return fmt.Sprintf("period=%dms lat=%v filter=%s bufsiz=%d init=%d acts=%d faults=%d watchmode=%q strategy=%s stall=%d",
		sc.PeriodMs, sc.ListLatMs, sc.Filter.String(), sc.Bufsiz, len(sc.Init), len(sc.Acts), len(sc.Faults), sc.WatchMode, sc.Sim.Strategy.Kind, sc.Sim.Strategy.StallPermille)
}

func init() {
	fam := func(gen func(GenCtx) interface{}) *Family {
		return &Family{
			Gen:      gen,
			New:      func() interface{} { return &Ctrl{} },
			Run:      runCtrl,
			Sim:      func(sc interface{}) SimCfg { return sc.(*Ctrl).Sim },
			Describe: describeCtrl,
			Nontrivial: func(sc interface{}, res *detsim.Result) bool {
				c := sc.(*Ctrl)
				return len(c.Acts) > 0 && res.Contended > 10
			},
		}
	}
	Registry["C03"] = fam(genC03)
	Registry["C04"] = fam(genC04)
}
