// Package scen holds the per-property scenario generators and runners.  A
// scenario is an explicit JSON-serialisable description (so that it can be
// written to a replay file and shrunk structurally); running it under
// detsim.Run with a tape is one exactly repeatable simulated execution.
package scen

import (
	"strings"
	"encoding/json"
	"math/rand"
	"time"

	"detsim"
	"kcsim/world"

	"github.com/boz/kcache"
)

// SimCfg is the simulator configuration that belongs to a scenario.
type SimCfg struct {
	Strategy    detsim.Strategy `json:"strategy"`
	NewTimers   bool            `json:"new_timers"`
	PermuteMaps bool            `json:"permute_maps"`
	MaxSteps    int             `json:"max_steps"`
	EstSteps    int             `json:"est_steps"`
}

// GenCtx is what a generator gets: a PRNG seeded from (VERIF_SEED, run index)
// plus the raw coordinates for generators that enumerate one dimension
// systematically.
type GenCtx struct {
	Rng  *rand.Rand
	Prop string
	Tier string
	Idx  int
	Seed int64
}

// Family is one scenario family.
type Family struct {
	// Gen draws a scenario for run idx of the given tier.
	Gen func(g GenCtx) interface{}
	// New returns an empty scenario value to decode JSON into.
	New func() interface{}
	// Run executes the scenario as the root goroutine of a simulation.
	Run func(sc interface{})
	// Post (optional) runs after the simulation, outside the simulator, and may
	// report a violation found in what the run recorded.
	Post func(sc interface{}) (class, detail string)
	// Sim extracts the simulator configuration.
	Sim func(sc interface{}) SimCfg
	// Describe gives a one-line summary for evidence samples.
	Describe func(sc interface{}) string
	// Nontrivial decides from the result whether the run counts as non-trivial.
	Nontrivial func(sc interface{}, res *detsim.Result) bool
}

// Registry maps property ids to their scenario family.
var Registry = map[string]*Family{}

func Decode(prop string, raw json.RawMessage) (interface{}, error) {
	f := Registry[prop]
	sc := f.New()
	if err := json.Unmarshal(raw, sc); err != nil {
		return nil, err
	}
	return sc, nil
}

// ---------------------------------------------------------------- helpers

var nsUniverse = []string{"n1", "n2"}
var nameUniverse = []string{"a", "b"}
// confusablePairs: pairs of distinct keys that a careless key derivation maps
// to the same slot - parts that concatenate to the same string under a
// separator legal inside names, and names whose common 32-bit hashes collide
// (FNV-1a, FNV-1, CRC-32, Adler-32, djb2, Java's 31-hash; found by search).
// One pair is in play per run (GenIdx), so that both halves meet.
var confusablePairs = [][2][2]string{
	{{"n-1", "a"}, {"n", "1-a"}},
	{{"n.1", "a"}, {"n", "1.a"}},
	{{"n1", "pod-z1mjf8"}, {"n1", "pod-s9nhjx"}},
	{{"n1", "pod-135key"}, {"n1", "pod-6bwejx"}},
	{{"n1", "pod-mb5dzs"}, {"n1", "pod-1bmvte"}},
	{{"n1", "pod-mdqwaj"}, {"n1", "pod-kujcds"}},
	{{"n1", "pod-bh2337"}, {"n1", "pod-bh0u1y"}},
	{{"n1", "pod-2wcvmr"}, {"n1", "pod-49e8mr"}},
}

// GenIdx is the index of the run being generated (set by the worker).
var GenIdx int

func pick(rng *rand.Rand, xs ...string) string { return xs[rng.Intn(len(xs))] }

func pickInt(rng *rand.Rand, xs ...int) int { return xs[rng.Intn(len(xs))] }

func randLabels(rng *rand.Rand) map[string]string {
	m := map[string]string{}
	switch rng.Intn(4) {
	case 0:
	case 1:
		m["app"] = pick(rng, "a", "b", "a", "b", "ab")
	case 2:
		m["tier"] = pick(rng, "x", "y")
	default:
		m["app"] = pick(rng, "a", "b", "a", "b", "ab")
		m["tier"] = pick(rng, "x", "y")
	}
	if rng.Intn(12) == 0 {
		m["App"] = pick(rng, "a", "b") // a key that differs only in case
	}
	if rng.Intn(12) == 0 {
		m["terminating"] = "true" // the object carries a deletionTimestamp (and a finalizer): it exists and keeps changing
	}
	return m
}

func randKey(rng *rand.Rand, nkeys int) (string, string) {
	k := rng.Intn(nkeys)
	if rng.Intn(10) == 0 {
		return "", nameUniverse[(k/2)%2] // a cluster-scoped object: no namespace
	}
	if rng.Intn(20) == 0 {
		// names that are legal for some resources but not DNS-1123 (RBAC objects
		// are called system:node, kubeadm:..., and names may contain upper case
		// in what a fake hands out)
		return nsUniverse[k%2], pick(rng, "system:node", "Upper_Case", "a b")
	}
	if rng.Intn(12) == 0 {
		// pairs of distinct keys whose parts concatenate to the same string under
		// a separator that is legal inside names
		c := confusablePairs[GenIdx%len(confusablePairs)][rng.Intn(2)]
		return c[0], c[1]
	}
	return nsUniverse[k%2], nameUniverse[(k/2)%2]
}

// filterFamily is the family of filters used across scenarios: equal,
// overlapping, disjoint, accept-all, accept-none, non-comparable.
func filterFamily() []world.FilterSpec {
	la := world.FilterSpec{Op: "labels", K: "app", V: "a"}
	lb := world.FilterSpec{Op: "labels", K: "app", V: "b"}
	n1 := world.FilterSpec{Op: "nsname", K: "n1", V: ""}
	return []world.FilterSpec{
		{Op: "null"},
		{Op: "all"},
		la,
		lb,
		n1,
		{Op: "not", Sub: []world.FilterSpec{la}},
		{Op: "and", Sub: []world.FilterSpec{la, n1}},
		{Op: "or", Sub: []world.FilterSpec{lb, n1}},
		{Op: "fn", K: "tier", V: "x"},
		{Op: "nsname", K: "n1", V: "a"},
	}
}

func randFilter(rng *rand.Rand) world.FilterSpec {
	if GenIdx%11 == 6 {
		// selectors without requirements, of either meaning
		return world.FilterSpec{Op: "selcorner", V: pick(rng, "lsel-nil", "nothing", "parsed-empty", "new")}
	}
	if GenIdx%7 == 3 {
		// an application whose filters all come from one small closure factory:
		// the same function literal, different captured values
		return world.FilterSpec{Op: "fn", K: pick(rng, "app", "app", "tier"), V: pick(rng, "a", "b", "x", "y")}
	}
	if rng.Intn(3) == 0 {
		return randFilterTerm(rng, 2)
	}
	fam := filterFamily()
	return fam[rng.Intn(len(fam))]
}

// randFilterTerm draws a filter term of bounded depth: composites with 0..3
// children, duplicated and reordered alternatives included (an unsound
// FiltersEqual shows as a Refilter that is wrongly treated as "unchanged").
func randFilterTerm(rng *rand.Rand, depth int) world.FilterSpec {
	atoms := []world.FilterSpec{
		{Op: "labels", K: "app", V: "a"}, {Op: "labels", K: "app", V: "b"},
		{Op: "labels", K: "tier", V: "x"}, {Op: "labels", K: "tier", V: "y"},
		{Op: "nsname", K: "n1", V: ""}, {Op: "nsname", K: "n2", V: ""}, {Op: "nsname", K: "n1", V: "a"},
		{Op: "null"}, {Op: "all"}, {Op: "fn", K: "tier", V: "x"},
		// the other constructors of the filter package, and values that are
		// prefixes / case variants of each other
		{Op: "labels", K: "app", V: "ab"}, {Op: "labels", K: "App", V: "a"},
		{Op: "labels2", V: "a|x"}, {Op: "labels2", V: "a|"}, {Op: "labels2", V: "|"}, {Op: "labels2", V: "ab|x"},
		{Op: "nsnames", V: "n1/a,n2/b"}, {Op: "nsnames", V: "n2/b,n1/a"}, {Op: "nsnames", V: "n1/,n2/a"}, {Op: "nsnames", V: "/a,n-1/a,n/1-a"},
		{Op: "lsel", K: "app", V: "a"}, {Op: "lsel", K: "app", V: "a|b"}, {Op: "lsel", K: "app", V: "b|a"}, {Op: "lsel", K: "tier", V: "x|y"},
		{Op: "sel", K: "app", V: "a"}, {Op: "sel", K: "app", V: "ab"},
		{Op: "rvparity", V: "odd"}, {Op: "rvparity", V: "even"},
		{Op: "selcorner", V: "lsel-nil"}, {Op: "selcorner", V: "nothing"}, {Op: "selcorner", V: "parsed-empty"}, {Op: "selcorner", V: "new"},
	}
	if depth <= 0 || rng.Intn(3) == 0 {
		return atoms[rng.Intn(len(atoms))]
	}
	switch rng.Intn(4) {
	case 0:
		return world.FilterSpec{Op: "not", Sub: []world.FilterSpec{randFilterTerm(rng, depth-1)}}
	case 1:
		op := "and"
		return world.FilterSpec{Op: op, Sub: randChildren(rng, depth)}
	default:
		return world.FilterSpec{Op: "or", Sub: randChildren(rng, depth)}
	}
}

func randChildren(rng *rand.Rand, depth int) []world.FilterSpec {
	n := rng.Intn(4)
	var cs []world.FilterSpec
	for i := 0; i < n; i++ {
		if len(cs) > 0 && rng.Intn(3) == 0 {
			cs = append(cs, cs[rng.Intn(len(cs))]) // a duplicated alternative
			continue
		}
		cs = append(cs, randFilterTerm(rng, depth-1))
	}
	return cs
}

// relatedFilter derives a filter from f by a small edit (drop / add / swap /
// duplicate a child): pairs that an order- or multiplicity-insensitive Equals
// could wrongly identify.
func relatedFilter(rng *rand.Rand, f world.FilterSpec) world.FilterSpec {
	if (f.Op != "or" && f.Op != "and") || len(f.Sub) == 0 {
		return randFilterTerm(rng, 2)
	}
	g := world.FilterSpec{Op: f.Op, Sub: append([]world.FilterSpec(nil), f.Sub...)}
	switch rng.Intn(5) {
	case 0: // replace one child, same length
		g.Sub[rng.Intn(len(g.Sub))] = randFilterTerm(rng, 1)
	case 1: // drop a child
		i := rng.Intn(len(g.Sub))
		g.Sub = append(g.Sub[:i:i], g.Sub[i+1:]...)
	case 2: // add a child
		g.Sub = append(g.Sub, randFilterTerm(rng, 1))
	case 3: // reorder
		rng.Shuffle(len(g.Sub), func(i, j int) { g.Sub[i], g.Sub[j] = g.Sub[j], g.Sub[i] })
	default: // collapse duplicates / replace a duplicate by something new (same length)
		for i := range g.Sub {
			for j := i + 1; j < len(g.Sub); j++ {
				if g.Sub[i].String() == g.Sub[j].String() {
					g.Sub[j] = randFilterTerm(rng, 1)
					return g
				}
			}
		}
		g.Sub[0], g.Sub[len(g.Sub)-1] = g.Sub[len(g.Sub)-1], g.Sub[0]
	}
	return g
}

func randStrategy(rng *rand.Rand, starveNames []string) detsim.Strategy {
	st := detsim.Strategy{}
	switch r := rng.Intn(100); {
	case r < 35:
		st.Kind = "uniform"
	case r < 60:
		st.Kind = "pct"
		st.PCTDepth = 1 + rng.Intn(3)
	case r < 80 && len(starveNames) > 0:
		st.Kind = "starve"
		st.StarveName = starveNames[rng.Intn(len(starveNames))]
		st.StarveK = pickInt(rng, 3, 10, 30, 100)
	default:
		st.Kind = "sticky"
		st.StickyPct = pickInt(rng, 50, 80, 95)
	}
	st.StallPermille = pickInt(rng, 0, 0, 0, 5, 20)
	return st
}

var libGoroutines = []string{"Create>c.run", "newCache>c.run", "newWatcher>w.run", "newWatchSession>s.run", "newLister>l.run",
	"newTicker>t.run", "newSubscription>s.run", "newPublisher>s.run", "newFilterSubscription>s.run", "NewMonitor>m.run",
	"h.reader", "c.pump", "timerfunc"}

func ms(n int) time.Duration { return time.Duration(n) * time.Millisecond }

func setBufsiz(n int) {
	if n <= 0 {
		n = 100
	}
	setEventBufsiz(n)
}

var _ = kcache.ErrNotRunning

// closeAndCheckClean closes the controller from a helper goroutine, demands
// that Close returns and Done closes without simulated time passing beyond
// 'grace', and that no library goroutine survives.
func closeAndCheckClean(h *world.H, grace time.Duration) {
	ret := make(chan struct{})
	go func() {
		h.Ctrl.Close()
		close(ret)
	}()
	if !world.WaitClosed(ret, grace) {
		detsim.Fail("hang:Close", "Controller.Close() did not return within %v of simulated time\n%s", grace, dumpLive())
	}
	if !world.WaitClosed(h.Ctrl.Done(), grace) {
		detsim.Fail("hang:Done", "Controller.Done() did not close within %v after Close() returned", grace)
	}
	detsim.Settle()
	checkNoLeak()
}

// recoveryBound: how long (simulated) the library may take to get back in step
// through the watch alone once faults have stopped.  The property contrasts
// "the reconnect delay" with "the refresh period" (hours here); the harness does
// not hard-code the library's retry constant, it only demands recovery within
// a bound far below any refresh period used with it.
const recoveryBound = 30 * time.Second

// waitQuiet lets simulated time pass, in small steps, until cond holds at a
// quiescent point or the bound is used up.  Call it after FairMode().
func waitQuiet(bound time.Duration, cond func() bool) bool {
	deadline := detsim.Elapsed() + bound
	for {
		detsim.Settle()
		if cond() {
			return true
		}
		if detsim.Elapsed() >= deadline {
			return false
		}
		time.Sleep(250 * time.Millisecond)
	}
}

func rootInSync(h *world.H) bool {
	got, _, ok := world.ListIDs(h.Ctrl.Cache())
	return !ok || world.SameIDs(got, world.SpecIDs(h.ExpectRoot()))
}

func dumpLive() string {
	out := ""
	for _, g := range detsim.Goroutines() {
		if g.State != "exited" {
			out += "  g" + itoa(g.ID) + " [" + g.Name + "] created@" + g.Site + " " + g.State + " @" + g.OpSite + "\n"
		}
	}
	return out
}

func jsonMarshal(v interface{}) string {
	b, _ := json.Marshal(v)
	return string(b)
}

func jsonUnmarshal(s string, v interface{}) { json.Unmarshal([]byte(s), v) }

func itoa(i int) string {
	b, _ := json.Marshal(i)
	return string(b)
}

func checkNoLeak() {
	for _, site := range detsim.OpenContexts() {
		// (-trimpath: library files appear under their module path)
		if i := strings.Index(site, "boz/kcache"); i >= 0 {
			// (-trimpath: library files appear under their module path, with or without a version suffix)
			where := site[strings.LastIndex(site, "/")+1:]
			detsim.Fail("leak:context@"+where, "a context derived by the library at %s is still alive and was never cancelled although everything the library started has shut down (one per call: it stays registered with its parent for as long as the parent lives)", where)
		}
	}
	live := world.LiveLibGoroutines("world/", "scen/")
	if len(live) > 0 {
		g := live[0]
		detsim.Fail("leak:"+g.Name, "%d library goroutine(s) still alive after shutdown; first: g%d [%s] created at %s, parked at %s\n%s",
			len(live), g.ID, g.Name, g.Site, g.OpSite, dumpLive())
	}
}
