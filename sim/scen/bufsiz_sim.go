//go:build kcinstr

package scen

import "github.com/boz/kcache"

// In the instrumented tree EventBufsiz is a variable (kcinstr -constvar).
func setEventBufsiz(n int) { kcache.EventBufsiz = n }
