//go:build kcinstr

package scen

import "github.com/boz/kcache"

// In the instrumented tree EventBufsiz is a variable whenever kcinstr could
// make it one (kcinstr -constvar); the generated setter says whether it did.
func setEventBufsiz(n int) { kcache.DetsimSetEventBufsiz(n) }
