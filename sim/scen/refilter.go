package scen

import (
	"fmt"
	"sort"
	"strings"
	"time"

	"detsim"
	"kcsim/world"
)

// Refil is the scripted scenario of C07: a ready filtered subscription (or a
// subscriber below a filtered clone), then a sequence of Refilter calls with
// quiescence around each; the events between two barriers must be exactly the
// membership changes.
type Refil struct {
	Prop    string             `json:"prop"`
	Init    []world.Spec       `json:"init"`
	Kind    string             `json:"kind"` // subf | clonef
	Filters []world.FilterSpec `json:"filters"`
	Touch   bool               `json:"touch"` // one parent update between the refilters (must not disturb the next delta)
	// Pre[i]: parent writes (apply, or delete when Labels is nil and RV is "del")
	// made and drained before the i-th Refilter of a long sequence
	Pre [][]world.Spec `json:"pre,omitempty"`
	// NoWait[i]: the (i+1)-th Refilter is issued right behind the i-th, without
	// waiting for anything in between (what a join does on a burst of source
	// events): the per-call delta is then not observable, the final view is
	NoWait []bool `json:"no_wait,omitempty"`
	// Stateful: the node's filter is one user-defined object without Equals, whose
	// state is changed in place and which is re-submitted by pointer
	Stateful bool `json:"stateful,omitempty"`
	// Sibling: a second filtered subscription on the same controller is
	// refiltered right behind every Refilter of the node under test (SibFilters,
	// cyclically), and both nodes' filters cost SlowUs per object - each
	// reconcile overlaps the other's parent listing
	// Fixtures: the initial objects carry no uid and all the same resourceVersion
	Fixtures   bool               `json:"fixtures,omitempty"`
	FixtureZero bool              `json:"fixture_zero,omitempty"` // ... and that version is "0"
	Sibling    bool               `json:"sibling,omitempty"`
	SibFilters []world.FilterSpec `json:"sib_filters,omitempty"`
	SlowUs     int                `json:"slow_us,omitempty"`
	Sim     SimCfg             `json:"sim"`
}

func genC07(g GenCtx) interface{} {
	rng := g.Rng
	sc := &Refil{Prop: g.Prop}
	fam := filterFamily()
	// ordered pairs enumerated systematically (round-robin over run indexes),
	// the optional third filter is sampled
	i := g.Idx % len(fam)
	j := (g.Idx / len(fam)) % len(fam)
	sc.Filters = []world.FilterSpec{fam[i], fam[j]}
	if g.Idx%2 == 1 {
		// the other half of the runs: random terms and near-miss pairs
		f1 := randFilterTerm(rng, 2)
		f2 := relatedFilter(rng, f1)
		if rng.Intn(4) == 0 {
			f2 = randFilterTerm(rng, 2)
		}
		sc.Filters = []world.FilterSpec{f1, f2}
	}
	switch rng.Intn(3) {
	case 0:
		sc.Filters = append(sc.Filters, sc.Filters[0]) // A -> B -> A
	case 1:
		sc.Filters = append(sc.Filters, relatedFilter(rng, sc.Filters[1]))
	}
	n := rng.Intn(6)
	seen := map[string]bool{}
	for k := 0; k < n; k++ {
		s := world.Spec{NS: pick(rng, "n1", "n2"), Name: pick(rng, "a", "b", "c"), Labels: randLabels(rng)}
		if !seen[s.Key()] {
			seen[s.Key()] = true
			sc.Init = append(sc.Init, s)
		}
	}
	if g.Idx%10 == 9 {
		// long-lived node: 6..40 refilters over a small pool of filters (so that
		// earlier filters come back, equal ones repeat) with parent changes drained
		// in between - anything remembered from an earlier refilter must still be
		// right at the N-th
		pool := []world.FilterSpec{sc.Filters[0], sc.Filters[1], randFilter(rng), randFilterTerm(rng, 2)}
		pool = append(pool, relatedFilter(rng, pool[rng.Intn(len(pool))]))
		sc.Filters = sc.Filters[:1]
		sc.Pre = [][]world.Spec{nil}
		for k := 6 + rng.Intn(35); k > 0; k-- {
			sc.Filters = append(sc.Filters, pool[rng.Intn(len(pool))])
			var pre []world.Spec
			for w := rng.Intn(3); w > 0; w-- {
				o := world.Spec{NS: pick(rng, "n1", "n2", ""), Name: pick(rng, "a", "b", "c"), Labels: randLabels(rng)}
				if rng.Intn(4) == 0 {
					o.Labels, o.RV = nil, "del"
				}
				pre = append(pre, o)
			}
			sc.Pre = append(sc.Pre, pre)
		}
	}
	if len(sc.Pre) == 0 && rng.Intn(5) == 0 {
		// two or three refilters back to back
		for len(sc.Filters) < 3+rng.Intn(2) {
			sc.Filters = append(sc.Filters, randFilter(rng))
		}
		sc.NoWait = make([]bool, len(sc.Filters))
		for i := 1; i+1 < len(sc.Filters); i++ {
			sc.NoWait[i] = true
		}
	}
	if len(sc.NoWait) == 0 && !sc.Stateful && rng.Intn(5) == 0 {
		sc.Sibling = true
		sc.SlowUs = pickInt(rng, 1, 20, 300)
		for k := 1 + rng.Intn(3); k > 0; k-- {
			sc.SibFilters = append(sc.SibFilters, randFilter(rng))
		}
		// enough objects for a listing to have an order
		for k := 4 + rng.Intn(12); k > 0; k-- {
			o := world.Spec{NS: pick(rng, "n1", "n2", "n3"), Name: pick(rng, "a", "b", "c", "d", "e", "f"), Labels: randLabels(rng)}
			if !seen[o.Key()] {
				seen[o.Key()] = true
				sc.Init = append(sc.Init, o)
			}
		}
	}
	sc.Kind = pick(rng, "subf", "subf", "clonef", "subff", "cloneff", "subff-early", "cloneff-early")
	sc.Stateful = rng.Intn(6) == 0 && !sc.Sibling
	sc.Touch = rng.Intn(4) == 0
	sc.Fixtures = rng.Intn(5) == 0
	sc.FixtureZero = rng.Intn(2) == 0
	sc.Sim = SimCfg{Strategy: randStrategy(rng, libGoroutines), PermuteMaps: true, MaxSteps: 100000, EstSteps: 1500}
	sc.Sim.Strategy.StallPermille = 0
	return sc
}

func runC07(sci interface{}) {
	sc := sci.(*Refil)
	setBufsiz(100)
	if len(sc.Filters) == 0 {
		return
	}
	srv := world.NewServer("pod")
	if sc.Fixtures && sc.FixtureZero {
		srv.ZeroRV()
	}
	for _, o := range sc.Init {
		if sc.Fixtures {
			srv.ApplyFixture(o)
		} else {
			srv.Apply(o)
		}
	}
	h := world.NewH(srv, world.FilterSpec{}, noRelist, false)
	h.NoRelist = true
	h.ExpectNoOverflow = true
	early := strings.HasSuffix(sc.Kind, "-early")
	if early {
		srv.HoldFirstList = make(chan struct{})
	}
	h.Start()
	detsim.SetInvariant(h.Invariant)
	if !early && !world.WaitClosed(h.Ctrl.Ready(), 1e9) {
		detsim.Fail("not-ready", "controller not ready")
	}
	if sc.Sibling {
		slow := world.FilterSpec{Op: "slow", V: itoa(sc.SlowUs)}
		fs := make([]world.FilterSpec, len(sc.Filters))
		for i, f := range sc.Filters {
			fs[i] = world.FilterSpec{Op: "and", Sub: []world.FilterSpec{slow, f}}
		}
		c := *sc
		c.Filters = fs
		sc = &c
	}
	settle := func() {
		if sc.Sibling {
			// filters that cost time: every object passes each node's filter a few
			// times per reconcile or event
			time.Sleep(time.Duration(sc.SlowUs) * time.Microsecond * time.Duration(8*(len(srv.Objects())+4)))
		}
		detsim.Settle()
	}
	var fnode, reader, sib *world.NodeRT
	var err error
	h.NextStateful = sc.Stateful && (sc.Kind == "subf" || sc.Kind == "clonef")
	if strings.HasPrefix(sc.Kind, "subff") || strings.HasPrefix(sc.Kind, "cloneff") {
		// a deferred node that gets its first filter before ("-early": the first
		// list is still out) or after its parent is ready - what every join's
		// destination side is; from then on it is a ready filtered node like any other
		if strings.HasPrefix(sc.Kind, "cloneff") {
			fnode, err = h.MakeNode(nil, "cloneff", world.FilterSpec{}, "none")
			if err == nil {
				reader, err = h.MakeNode(fnode, "sub", world.FilterSpec{}, "eager")
			}
		} else {
			fnode, err = h.MakeNode(nil, "subff", world.FilterSpec{}, "eager")
			reader = fnode
		}
		if err == nil {
			err = h.Refilter(fnode, sc.Filters[0])
		}
		if early {
			detsim.Settle()
			detsim.Count("probe:deferred-node-filtered-before-its-parent-was-ready")
			close(srv.HoldFirstList)
			if !world.WaitClosed(h.Ctrl.Ready(), 1e9) {
				detsim.Fail("not-ready", "controller not ready")
			}
		}
	} else if sc.Kind == "clonef" {
		fnode, err = h.MakeNode(nil, "clonef", sc.Filters[0], "none")
		if err == nil {
			reader, err = h.MakeNode(fnode, "sub", world.FilterSpec{}, "eager")
		}
	} else {
		fnode, err = h.MakeNode(nil, "subf", sc.Filters[0], "eager")
		reader = fnode
	}
	if err != nil {
		detsim.Fail("api-error", "creating the filtered node: %v", err)
	}
	sibFilter := func(i int) world.FilterSpec {
		return world.FilterSpec{Op: "and", Sub: []world.FilterSpec{{Op: "slow", V: itoa(sc.SlowUs)}, sc.SibFilters[i%len(sc.SibFilters)]}}
	}
	if sc.Sibling && err == nil {
		sib, err = h.MakeNode(nil, "subf", sibFilter(0), "eager")
		if err == nil && !world.WaitClosed(h.ReadyOf(sib), 1e9) {
			detsim.Fail("not-ready", "%s with an immediate filter did not become ready although its parent is", sib.Name())
		}
	}
	if err != nil {
		detsim.Fail("api-error", "creating the filtered node: %v", err)
	}
	if !world.WaitClosed(h.ReadyOf(fnode), 1e9) {
		detsim.Fail("not-ready", "%s with an immediate filter did not become ready although its parent is", fnode.Name())
	}
	settle()
	h.CheckTree("")
	if len(reader.Events) != 0 {
		detsim.Fail("unexpected-events", "%s received %v before any Refilter or parent change", reader.Name(), world.Sigs(reader.Events))
	}
	cur := sc.Filters[0]
	chained := false
	for step, f := range sc.Filters[1:] {
		if sc.Touch && step == 1 {
			// a parent change between two refilters, drained before the next one
			srv.Apply(world.Spec{NS: "n1", Name: "a", Labels: map[string]string{"app": "a", "tier": "x"}})
			settle()
			h.CheckTree("")
		}
		if step+1 < len(sc.Pre) && len(sc.Pre[step+1]) > 0 {
			for _, o := range sc.Pre[step+1] {
				if o.RV == "del" {
					srv.Delete(o.Key())
				} else {
					srv.Apply(world.Spec{NS: o.NS, Name: o.Name, Labels: o.Labels})
				}
			}
			settle()
			h.CheckTree("")
		}
		_, before, ok := world.ListIDs(h.CacheOf(fnode))
		_, parent, ok2 := world.ListIDs(h.Ctrl.Cache())
		if !ok || !ok2 {
			detsim.Fail("api-error", "cache read failed on a running node")
		}
		n0 := len(reader.Events)
		if err := h.Refilter(fnode, f); err != nil {
			detsim.Fail("api-error", "Refilter on a running node: %v", err)
		}
		if sib != nil {
			detsim.Count("probe:sibling-refiltered-alongside")
			if err := h.Refilter(sib, sibFilter(step+1)); err != nil {
				detsim.Fail("api-error", "Refilter on a running node: %v", err)
			}
		}
		// sc.Filters[step+1] == f; NoWait is indexed like sc.Filters
		if step+1 < len(sc.NoWait) && sc.NoWait[step+1] {
			detsim.Count("probe:refilter-back-to-back")
			chained = true
			cur = f
			continue // the next Refilter follows at once
		}
		settle()
		if chained {
			// only the outcome of the chain is defined: the view of the LAST filter
			// (cache == filter over parent, mirror == cache)
			chained = false
			h.CheckTree("")
			cur = f
			continue
		}
		pred := f.Pred()
		var want []string
		inBefore := map[string]bool{}
		for _, o := range before {
			inBefore[o.Key()] = true
			if !pred(o) {
				want = append(want, "delete "+o.Key())
			}
		}
		for _, o := range parent {
			if pred(o) && !inBefore[o.Key()] {
				want = append(want, "create "+o.Key()+"@"+o.RV)
			}
		}
		got := world.Sigs(reader.Events[n0:])
		sort.Strings(want)
		gs := append([]string(nil), got...)
		sort.Strings(gs)
		if !world.SameIDs(gs, want) {
			detsim.Fail("refilter-wrong-events", "Refilter %s -> %s on content %v (parent %v)\n  events  : %v\n  expected: %v", cur.String(), f.String(), world.SpecIDs(before), world.SpecIDs(parent), got, want)
		}
		// cache == new filter over the parent (covers: equal filter changes nothing, A->B->A restores A)
		h.CheckTree("")
		cur = f
	}
}

func init() {
	Registry["C07"] = &Family{
		Gen: genC07,
		New: func() interface{} { return &Refil{} },
		Run: runC07,
		Sim: func(sc interface{}) SimCfg { return sc.(*Refil).Sim },
		Describe: func(sci interface{}) string {
			sc := sci.(*Refil)
			s := ""
			for _, f := range sc.Filters {
				s += f.String() + " -> "
			}
			return fmt.Sprintf("kind=%s content=%v filters: %s touch=%v", sc.Kind, world.SpecIDs(sc.Init), s, sc.Touch)
		},
		Nontrivial: func(sci interface{}, res *detsim.Result) bool {
			return len(sci.(*Refil).Filters) >= 2 && res.Contended > 10
		},
	}
}
