package scen

import (
	"context"
	"fmt"
	"strings"
	"time"

	"detsim"
	"kcsim/world"

	logutil "github.com/boz/go-logutil"
	"github.com/boz/kcache"
	"github.com/boz/kcache/client"
	"github.com/boz/kcache/filter"
	metav1 "k8s.io/apimachinery/pkg/apis/meta/v1"
)

// TEvent is an event in the uniform (typed or untyped) view.
type TEvent struct {
	Type string
	Obj  world.Spec
	Nil  bool
}

// TCall is a monitor callback in the uniform view.
type TCall struct {
	Kind string
	Objs []world.Spec
	Nil  bool // a nil object was handed to the callback
}

// TNode gives uniform access to a controller / subscription of the untyped
// core or of any typed package, so that one scenario can drive both.
type TNode struct {
	List     func() ([]world.Spec, error)
	Ready    func() <-chan struct{}
	Done     func() <-chan struct{}
	Close    func()
	Error    func() error
	Events   <-chan TEvent // nil for publisher-like nodes
	Refilter func(filter.Filter) error

	Subscribe           func() (*TNode, error)
	SubscribeWithFilter func(filter.Filter) (*TNode, error)
	SubscribeForFilter  func() (*TNode, error)
	Clone               func() (*TNode, error)
	CloneWithFilter     func(filter.Filter) (*TNode, error)
	CloneForFilter      func() (*TNode, error)
	Monitor             func(rec func(TCall), slowMs int) (kcache.Monitor, error)
}

// typedUnitary: the next typed monitor is built with the package's unitary handler (ToUnitary)
var typedUnitary bool

// handlerBuilderReuse: the next monitor's handler comes from a builder that is
// used again afterwards (other callbacks, a second Create)
var handlerBuilderReuse bool

// handWrittenHandler: the next monitor's handler is the application's own type
// implementing the Handler interface (a decorator), not a builder-made value
var handWrittenHandler bool

type userHandlerU struct{ inner kcache.Handler }

func (u *userHandlerU) OnInitialize(objs []metav1.Object) { u.inner.OnInitialize(objs) }
func (u *userHandlerU) OnCreate(obj metav1.Object)        { u.inner.OnCreate(obj) }
func (u *userHandlerU) OnUpdate(obj metav1.Object)        { u.inner.OnUpdate(obj) }
func (u *userHandlerU) OnDelete(obj metav1.Object)        { u.inner.OnDelete(obj) }

// typedBuilders is filled by the per-package glue files (generated from
// typed_glue.go.tmpl by build_sim.sh, one per typed package).
var typedBuilders = map[string]func(ctx context.Context, log logutil.Log, c client.Client) (*TNode, error){}

func specsOrNil(objs []metav1.Object) []world.Spec {
	out := make([]world.Spec, 0, len(objs))
	for _, o := range objs {
		out = append(out, world.SpecOf(o))
	}
	return out
}

// ---- untyped adapter

func untypedEvents(s kcache.Subscription) <-chan TEvent {
	out := make(chan TEvent)
	go func() {
		defer close(out)
		for ev := range s.Events() {
			te := TEvent{Type: string(ev.Type())}
			if ev.Resource() == nil {
				te.Nil = true
			} else {
				te.Obj = world.SpecOf(ev.Resource())
			}
			out <- te
		}
	}()
	return out
}

func untypedSub(s kcache.Subscription, fs kcache.FilterSubscription) *TNode {
	n := &TNode{
		List: func() ([]world.Spec, error) {
			l, err := s.Cache().List()
			return specsOrNil(l), err
		},
		Ready: s.Ready, Done: s.Done, Close: s.Close, Error: s.Error,
		Events: untypedEvents(s),
	}
	if fs != nil {
		n.Refilter = fs.Refilter
	}
	return n
}

func untypedCtrl(c kcache.Controller, fc kcache.FilterController) *TNode {
	n := &TNode{
		List: func() ([]world.Spec, error) {
			l, err := c.Cache().List()
			return specsOrNil(l), err
		},
		Ready: c.Ready, Done: c.Done, Close: c.Close, Error: c.Error,
		Subscribe: func() (*TNode, error) {
			s, err := c.Subscribe()
			if err != nil {
				return nil, err
			}
			return untypedSub(s, nil), nil
		},
		SubscribeWithFilter: func(f filter.Filter) (*TNode, error) {
			s, err := c.SubscribeWithFilter(f)
			if err != nil {
				return nil, err
			}
			return untypedSub(s, s), nil
		},
		SubscribeForFilter: func() (*TNode, error) {
			s, err := c.SubscribeForFilter()
			if err != nil {
				return nil, err
			}
			return untypedSub(s, s), nil
		},
		Clone: func() (*TNode, error) {
			x, err := c.Clone()
			if err != nil {
				return nil, err
			}
			return untypedCtrl(x, nil), nil
		},
		CloneWithFilter: func(f filter.Filter) (*TNode, error) {
			x, err := c.CloneWithFilter(f)
			if err != nil {
				return nil, err
			}
			return untypedCtrl(x, x), nil
		},
		CloneForFilter: func() (*TNode, error) {
			x, err := c.CloneForFilter()
			if err != nil {
				return nil, err
			}
			return untypedCtrl(x, x), nil
		},
		Monitor: func(rec func(TCall), slowMs int) (kcache.Monitor, error) {
			one := func(kind string) func(metav1.Object) {
				return func(o metav1.Object) {
					if o == nil {
						rec(TCall{Kind: kind, Nil: true})
					} else {
						rec(TCall{Kind: kind, Objs: []world.Spec{world.SpecOf(o)}})
					}
					if slowMs > 0 {
						time.Sleep(ms(slowMs))
					}
				}
			}
			b := kcache.BuildHandler().
				OnInitialize(func(objs []metav1.Object) { rec(TCall{Kind: "init", Objs: specsOrNil(objs)}) }).
				OnCreate(one("create")).OnUpdate(one("update")).OnDelete(one("delete"))
			h := b.Create()
			if handlerBuilderReuse {
				b.OnInitialize(func(objs []metav1.Object) { rec(TCall{Kind: "second:init", Objs: specsOrNil(objs)}) }).
					OnCreate(one("second:create")).OnUpdate(one("second:update")).OnDelete(nil).Create()
			}
			if handWrittenHandler {
				return kcache.NewMonitor(c, &userHandlerU{inner: h})
			}
			return kcache.NewMonitor(c, h)
		},
	}
	if fc != nil {
		n.Refilter = fc.Refilter
	}
	return n
}

// ---- the differential scenario (C20)

// DAct is one step of the typed/untyped differential script; it is applied
// to both sides.
type DAct struct {
	Op     string            `json:"op"` // apply delete foreign settle check mknode refilter close sleep
	NS     string            `json:"ns,omitempty"`
	Name   string            `json:"name,omitempty"`
	Labels map[string]string `json:"labels,omitempty"`
	Node   int               `json:"node"` // parent (mknode, -1 = root) or target
	Kind    string            `json:"kind,omitempty"`
	Filter  world.FilterSpec  `json:"filter,omitempty"`
	Filter2 world.FilterSpec  `json:"filter2,omitempty"` // refilter-race: the competing filter
	SlowMs  int               `json:"slow_ms,omitempty"`
	Ms      int               `json:"ms,omitempty"`
	Unitary bool              `json:"unitary,omitempty"` // monitor: the typed side uses the package's UnitaryHandler through ToUnitary
	HandWritten bool           `json:"hand_written,omitempty"` // monitor: the handler is a user type implementing Handler
	ReuseBuilder bool          `json:"reuse_builder,omitempty"` // monitor: the handler builder is used again after Create (the created handler is a finished value)
	Stalled bool              `json:"stalled,omitempty"` // the subscriber does not read until the end (C10's typed position)
}

type Diff struct {
	Bufsiz  int                    `json:"bufsiz"` // 0 = 100; small values come with stalled subscribers and one write per quiescence
	Prop    string                 `json:"prop"`
	Kind    string                 `json:"kind"`    // typed package under test
	Foreign string                 `json:"foreign"` // kind of the foreign-typed objects ("" = none)
	Init    []world.Spec           `json:"init"`
	Faults  map[string]world.Fault `json:"faults"`
	Acts    []DAct                 `json:"acts"`
	Sim     SimCfg                 `json:"sim"`
}

type dnode struct {
	kind   string
	t, u   *TNode
	te, ue []TEvent
	tmon   []TCall
	umon   []TCall
	closed  bool
	unitary bool // monitor whose typed side is a unitary handler
	racy    bool // concurrent Refilter calls were made on it: event streams of the two sides are no longer comparable, caches are
	stalled bool
	appliesAtCreate int
	foreignAtCreate int
	filter  world.FilterSpec
	parent *dnode
	tmonitor, umonitor kcache.Monitor
}

// (foreign-typed objects are recognised by their name or by the label the
// script gives them when they take the NAME of an object of the package's type)
func isForeign(s world.Spec) bool {
	return strings.HasPrefix(s.Name, "foreign") || s.Labels["foreign"] != ""
}

func genC20(g GenCtx) interface{} {
	rng := g.Rng
	sc := &Diff{Prop: g.Prop}
	sc.Kind = world.AllKinds[g.Idx%len(world.AllKinds)] // every typed package in turn
	if rng.Intn(2) == 0 {
		for {
			sc.Foreign = world.AllKinds[rng.Intn(len(world.AllKinds))]
			if sc.Foreign != sc.Kind {
				break
			}
		}
		sc.Faults = map[string]world.Fault{"watch-foreign": {Budget: 1 + rng.Intn(3), Denom: 2 + rng.Intn(3)}}
	}
	nkeys := 1 + rng.Intn(4)
	sc.Init = genInit(rng, nkeys)
	small := rng.Intn(4) == 0
	if small {
		sc.Bufsiz = pickInt(rng, 2, 3, 5)
	}
	var pubs []int
	var filt []int
	nodes := 0
	mk := func() {
		if small && rng.Intn(2) == 0 {
			p := -1
			if len(pubs) > 0 && rng.Intn(2) == 0 {
				p = pubs[rng.Intn(len(pubs))]
			}
			sc.Acts = append(sc.Acts, DAct{Op: "mknode", Node: p, Kind: "sub", Stalled: true})
			nodes++
			return
		}
		p := -1
		if len(pubs) > 0 && rng.Intn(2) == 0 {
			p = pubs[rng.Intn(len(pubs))]
		}
		k := pick(rng, "sub", "sub", "subf", "subff", "clone", "clonef", "cloneff", "monitor")
		if small {
			// one event per write and per stage only: no filters (a refilter is a batch), no monitors
			k = pick(rng, "sub", "sub", "clone")
		}
		sc.Acts = append(sc.Acts, DAct{Op: "mknode", Node: p, Kind: k, Filter: randFilter(rng), SlowMs: pickInt(rng, 0, 0, 3), Unitary: k == "monitor" && rng.Intn(3) == 0, ReuseBuilder: k == "monitor" && rng.Intn(3) == 0, HandWritten: k == "monitor" && rng.Intn(3) == 0})
		switch k {
		case "clone", "clonef", "cloneff":
			pubs = append(pubs, nodes)
		}
		switch k {
		case "subf", "subff", "clonef", "cloneff":
			filt = append(filt, nodes)
		}
		nodes++
	}
	for i := 1 + rng.Intn(5); i > 0; i-- {
		mk()
	}
	n := rng.Intn(30)
	inflight := 0
	for i := 0; i < n; i++ {
		switch r := rng.Intn(12); {
		case r < 6:
			ns, name := randKey(rng, nkeys)
			if rng.Intn(4) == 0 {
				sc.Acts = append(sc.Acts, DAct{Op: "delete", NS: ns, Name: name})
			} else {
				sc.Acts = append(sc.Acts, DAct{Op: "apply", NS: ns, Name: name, Labels: randLabels(rng)})
			}
			inflight++
		case r < 7 && sc.Foreign != "":
			fa := DAct{Op: "foreign", NS: pick(rng, "n1", "n2"), Name: "foreign" + pick(rng, "1", "2"), Labels: randLabels(rng)}
			if rng.Intn(3) == 0 {
				// a foreign-typed object under the namespace/name of one of the
				// package's own objects (the base cache is keyed by namespace/name only)
				fa.NS, fa.Name = randKey(rng, nkeys)
				fa.Labels["foreign"] = "1"
			}
			sc.Acts = append(sc.Acts, fa)
			inflight++
		case r < 8 && len(filt) > 0 && !small:
			if rng.Intn(6) == 0 {
				sc.Acts = append(sc.Acts, DAct{Op: "refilter-close", Node: filt[rng.Intn(len(filt))], Filter: randFilter(rng)}, DAct{Op: "check"})
			} else if rng.Intn(4) == 0 {
				sc.Acts = append(sc.Acts, DAct{Op: "refilter-race", Node: filt[rng.Intn(len(filt))], Filter: randFilter(rng), Filter2: randFilter(rng)}, DAct{Op: "check"})
			} else {
				sc.Acts = append(sc.Acts, DAct{Op: "refilter", Node: filt[rng.Intn(len(filt))], Filter: randFilter(rng)})
			}
		case r < 9 && nodes < 8:
			mk()
		case r < 10 && nodes > 0 && rng.Intn(3) == 0:
			sc.Acts = append(sc.Acts, DAct{Op: "close", Node: rng.Intn(nodes)})
		default:
			sc.Acts = append(sc.Acts, DAct{Op: "check"})
			inflight = 0
		}
		if inflight >= 15 || (small && inflight >= 1) {
			sc.Acts = append(sc.Acts, DAct{Op: "check"})
			inflight = 0
		}
	}
	sc.Sim = SimCfg{Strategy: randStrategy(rng, libGoroutines), PermuteMaps: true, MaxSteps: 150000, EstSteps: 4000}
	if small {
		// a starved stage would overflow a 2-slot buffer on its own
		sc.Sim.Strategy = detsim.Strategy{Kind: "uniform"}
	}
	sc.Sim.Strategy.StallPermille = 0
	return sc
}

func runC20(sci interface{}) {
	sc := sci.(*Diff)
	setBufsiz(sc.Bufsiz)
	build := typedBuilders[sc.Kind]
	if build == nil {
		detsim.Fail("infra:scenario", "no typed glue for kind %q", sc.Kind)
	}
	srv := world.NewServer(sc.Kind)
	srv.F = world.NewFaults(sc.Faults)
	for _, o := range sc.Init {
		srv.Apply(o)
	}
	if sc.Foreign != "" {
		srv.Foreign = []world.Spec{{NS: "n1", Name: "foreign0", Kind: sc.Foreign, RV: "1", Labels: map[string]string{"app": "a"}}}
	}
	log := world.NewLog(false)
	ctx, cancel := context.WithCancel(context.Background())
	defer cancel()
	troot, err := build(ctx, log, srv)
	if err != nil {
		detsim.Fail("infra:controller", "typed BuildController: %v", err)
	}
	uc, err := kcache.NewController(ctx, log, srv)
	if err != nil {
		detsim.Fail("infra:controller", "NewController: %v", err)
	}
	uroot := untypedCtrl(uc, nil)
	var nodes []*dnode
	reader := func(ch <-chan TEvent, into *[]TEvent) {
		if ch == nil {
			return
		}
		go func() {
			for ev := range ch {
				*into = append(*into, ev)
			}
		}()
	}
	get := func(i int) *dnode {
		if i < 0 || i >= len(nodes) {
			return nil
		}
		return nodes[i]
	}
	closedAbove := func(n *dnode) bool {
		for p := n; p != nil; p = p.parent {
			if p.closed || p.racy {
				return true
			}
		}
		return false
	}
	sigsOf := func(evs []TEvent, restrict bool) []string {
		var out []string
		for _, e := range evs {
			if e.Nil {
				out = append(out, e.Type+" <nil>")
				continue
			}
			if restrict && isForeign(e.Obj) {
				continue
			}
			if e.Type == "delete" {
				out = append(out, "delete "+e.Obj.Key())
			} else {
				out = append(out, e.Type+" "+e.Obj.Key()+"@"+e.Obj.RV)
			}
		}
		return out
	}
	restrictIDs := func(specs []world.Spec) []string {
		var out []world.Spec
		for _, s := range specs {
			if !isForeign(s) {
				out = append(out, s)
			}
		}
		return world.SpecIDs(out)
	}
	cmpLists := func(name string, t, u *TNode) {
		tl, terr := t.List()
		ul, uerr := u.List()
		if (terr == nil) != (uerr == nil) {
			detsim.Fail("typed-differs:lifecycle", "%s: typed List() error=%v, untyped List() error=%v", name, terr, uerr)
		}
		if terr != nil {
			return
		}
		for _, s := range tl {
			if isForeign(s) {
				detsim.Fail("typed-differs:foreign-object-visible", "%s: the typed cache of package %s lists the foreign-typed object %s", name, sc.Kind, s.ID())
			}
		}
		if a, b := world.SpecIDs(tl), restrictIDs(ul); !world.SameIDs(a, b) {
			detsim.Fail("typed-differs:cache", "%s: typed (%s) and untyped cache contents differ at quiescence\n  typed  : %v\n  untyped: %v (restricted to the package's type)", name, sc.Kind, a, b)
		}
	}
	check := func() {
		detsim.Settle()
		// slow monitor handlers work off their backlog first
		for i := 0; i < 500; i++ {
			before := 0
			for _, n := range nodes {
				before += len(n.tmon) + len(n.umon)
			}
			time.Sleep(20 * time.Millisecond)
			detsim.Settle()
			after := 0
			for _, n := range nodes {
				after += len(n.tmon) + len(n.umon)
			}
			if after == before {
				break
			}
		}
		detsim.HoldTime(true)
		defer detsim.HoldTime(false)
		if detsim.TotalDrops() > 0 {
			// a non-blocking hand-off found its (tiny) buffer full somewhere: the
			// two sides may have lost different events - counted, not compared
			detsim.Count("probe:c20-overflow-run-not-compared")
			return
		}
		cmpLists("root", troot, uroot)
		for i, n := range nodes {
			name := fmt.Sprintf("node%d(%s)", i, n.kind)
			if n.kind == "dead" {
				continue
			}
			if n.kind == "monitor" {
				a, b := callSigs(n.tmon, false), callSigs(n.umon, true)
				if n.unitary {
					// a unitary handler is initialised with THE object when the publisher
					// holds exactly one of the package's type, and not at all otherwise
					b = unitaryView(n.umon)
				}
				for _, c := range n.tmon {
					if c.Nil {
						detsim.Fail("typed-differs:nil-callback", "%s: the typed monitor of package %s invoked On%s with a nil object (a foreign-typed object was not skipped)", name, sc.Kind, strings.Title(c.Kind))
					}
				}
				if !closedAbove(n) && !sameUpToBatchOrder(a, b) {
					detsim.Fail("typed-differs:monitor", "%s: typed (%s) and untyped monitor callbacks differ\n  typed  : %v\n  untyped: %v (restricted to the package's type)", name, sc.Kind, a, b)
				}
				continue
			}
			tr, ur := detsim.IsClosed(n.t.Ready()), detsim.IsClosed(n.u.Ready())
			td, ud := detsim.IsClosed(n.t.Done()), detsim.IsClosed(n.u.Done())
			if tr != ur || td != ud {
				detsim.Fail("typed-differs:lifecycle", "%s: typed ready=%v done=%v, untyped ready=%v done=%v", name, tr, td, ur, ud)
			}
			// (closed handles too: a plain subscription or clone has no cache of its
			// own - Cache() is the upstream reader and keeps answering after Close -
			// while a filtered one answers ErrNotRunning; typed and core agree on which)
			cmpLists(name, n.t, n.u)
			if n.t.Events != nil && !n.stalled {
				a, b := sigsOf(n.te, false), sigsOf(n.ue, true)
				if !closedAbove(n) && !sameUpToBatchOrder(a, b) {
					detsim.Fail("typed-differs:events", "%s: typed (%s) and untyped event sequences differ\n  typed  : %v\n  untyped: %v (restricted to the package's type)", name, sc.Kind, a, b)
				}
			}
		}
	}
	applies, foreigns := 0, 0
	for _, a := range sc.Acts {
		switch a.Op {
		case "apply":
			applies++
			srv.Apply(world.Spec{NS: a.NS, Name: a.Name, Labels: a.Labels})
		case "foreign":
			foreigns++
			srv.Apply(world.Spec{NS: a.NS, Name: a.Name, Labels: a.Labels, Kind: sc.Foreign})
		case "delete":
			srv.Delete(a.NS + "/" + a.Name)
		case "sleep":
			time.Sleep(ms(a.Ms))
		case "settle":
			detsim.Settle()
		case "check":
			check()
		case "refilter":
			detsim.Settle() // structural operations happen at quiescence so that both sides see the same stream afterwards
			if n := get(a.Node); n != nil && n.t.Refilter != nil {
				e1 := n.t.Refilter(a.Filter.Build())
				e2 := n.u.Refilter(a.Filter.Build())
				if (e1 == nil) != (e2 == nil) && !closedAbove(n) {
					detsim.Fail("typed-differs:lifecycle", "node%d: typed Refilter error=%v, untyped error=%v", a.Node, e1, e2)
				}
				detsim.Settle()
			}
		case "refilter-close":
			// a Refilter (a batch of events) with Close() right behind it: the core
			// queues the whole batch before it handles the close request, and what is
			// queued stays readable after Close - typed and untyped consumers must
			// end up with the same events
			detsim.Settle()
			if n := get(a.Node); n != nil && n.t.Refilter != nil && n.t.Events != nil && !n.stalled && !closedAbove(n) {
				e1 := n.t.Refilter(a.Filter.Build())
				n.t.Close()
				e2 := n.u.Refilter(a.Filter.Build())
				n.u.Close()
				n.closed = true
				if (e1 == nil) != (e2 == nil) {
					detsim.Fail("typed-differs:lifecycle", "node%d: typed Refilter error=%v, untyped error=%v", a.Node, e1, e2)
				}
				detsim.Settle()
				detsim.Count("probe:c20-refilter-then-close")
				if detsim.TotalDrops() == 0 {
					ta, ub := sigsOf(n.te, false), sigsOf(n.ue, true)
					if !sameUpToBatchOrder(ta, ub) {
						detsim.Fail("typed-differs:events", "node%d: Refilter followed at once by Close - the typed (%s) subscriber ended up with other events than the untyped one\n  typed  : %v\n  untyped: %v (restricted to the package's type)", a.Node, sc.Kind, ta, ub)
					}
				}
			}
		case "refilter-race":
			// two goroutines refilter the same node at the same time (either order
			// may win), then - sequentially - a filter equal to one of them is set:
			// whatever the race left behind, the node must end up with that filter
			detsim.Settle()
			if n := get(a.Node); n != nil && n.t.Refilter != nil && !closedAbove(n) {
				n.racy = true
				left := 4
				done := make(chan struct{})
				fin := func() {
					left--
					if left == 0 {
						close(done)
					}
				}
				for _, f := range []world.FilterSpec{a.Filter2, a.Filter} {
					f := f
					go func() { n.t.Refilter(f.Build()); fin() }()
					go func() { n.u.Refilter(f.Build()); fin() }()
				}
				if !world.WaitClosed(done, time.Minute) {
					detsim.Fail("hang:Refilter", "node%d: concurrent Refilter calls did not return", a.Node)
				}
				detsim.Settle()
				e1 := n.t.Refilter(a.Filter.Build())
				e2 := n.u.Refilter(a.Filter.Build())
				if e1 != nil || e2 != nil {
					detsim.Fail("api-error", "node%d: Refilter on a running node: typed %v, untyped %v", a.Node, e1, e2)
				}
				detsim.Settle()
				detsim.Count("probe:c20-refilter-race")
			}
		case "close":
			detsim.Settle()
			if n := get(a.Node); n != nil && n.kind != "dead" {
				n.closed = true
				if n.kind == "monitor" {
					n.tmonitor.Close()
					n.umonitor.Close()
				} else {
					n.t.Close()
					n.u.Close()
				}
			}
		case "mknode":
			detsim.Settle()
			tp, up := troot, uroot
			var parent *dnode
			dead := func() { nodes = append(nodes, &dnode{kind: "dead", t: &TNode{}, u: &TNode{}, closed: true}) }
			if p := get(a.Node); p != nil {
				if p.t.Subscribe == nil {
					dead() // keeps node indexes aligned with the generator
					continue
				}
				tp, up, parent = p.t, p.u, p
			} else if a.Node >= 0 {
				dead()
				continue
			}
			n := &dnode{kind: a.Kind, filter: a.Filter, parent: parent}
			var e1, e2 error
			switch a.Kind {
			case "sub":
				n.t, e1 = tp.Subscribe()
				n.u, e2 = up.Subscribe()
			case "subf":
				n.t, e1 = tp.SubscribeWithFilter(a.Filter.Build())
				n.u, e2 = up.SubscribeWithFilter(a.Filter.Build())
			case "subff":
				n.t, e1 = tp.SubscribeForFilter()
				n.u, e2 = up.SubscribeForFilter()
			case "clone":
				n.t, e1 = tp.Clone()
				n.u, e2 = up.Clone()
			case "clonef":
				n.t, e1 = tp.CloneWithFilter(a.Filter.Build())
				n.u, e2 = up.CloneWithFilter(a.Filter.Build())
			case "cloneff":
				n.t, e1 = tp.CloneForFilter()
				n.u, e2 = up.CloneForFilter()
			case "monitor":
				typedUnitary, n.unitary = a.Unitary, a.Unitary
				handlerBuilderReuse = a.ReuseBuilder
				handWrittenHandler = a.HandWritten
				if a.ReuseBuilder {
					detsim.Count("probe:handler-builder-used-again-after-create")
				}
				n.tmonitor, e1 = tp.Monitor(func(c TCall) { n.tmon = append(n.tmon, c) }, a.SlowMs)
				typedUnitary = false
				n.umonitor, e2 = up.Monitor(func(c TCall) { n.umon = append(n.umon, c) }, a.SlowMs)
				handlerBuilderReuse, handWrittenHandler = false, false
				n.t, n.u = &TNode{}, &TNode{}
			default:
				dead()
				continue
			}
			if (e1 == nil) != (e2 == nil) {
				if parent == nil || !closedAbove(parent) {
					detsim.Fail("typed-differs:lifecycle", "creating %s: typed error=%v, untyped error=%v", a.Kind, e1, e2)
				}
			}
			if e1 != nil || e2 != nil {
				// keep indexes aligned with the generator: a dead placeholder
				n.kind = "dead"
				n.t, n.u = &TNode{}, &TNode{}
				n.closed = true
				nodes = append(nodes, n)
				continue
			}
			nodes = append(nodes, n)
			n.stalled = a.Stalled && a.Kind == "sub"
			n.appliesAtCreate = applies
			n.foreignAtCreate = foreigns
			if !n.stalled {
				reader(n.t.Events, &n.te)
				reader(n.u.Events, &n.ue)
			}
			detsim.Settle() // both sides fully initialised before traffic resumes
		}
	}
	srv.F.Stop()
	detsim.FairMode()
	time.Sleep(1500 * time.Millisecond)
	// dead placeholders carry nil funcs: skip them in the final comparison
	var live []*dnode
	for _, n := range nodes {
		if n.kind != "dead" {
			live = append(live, n)
		}
	}
	nodes = live
	check()
	// stalled typed subscribers (C10's typed position): what they finally hold
	// is an in-order subsequence of what was published, at least one buffer long
	published := 0
	for _, a := range sc.Acts {
		if a.Op == "apply" || a.Op == "delete" {
			published++
		}
	}
	for i, n := range nodes {
		if !n.stalled || closedAbove(n) {
			continue
		}
		drain := func(ch <-chan TEvent) []TEvent {
			var out []TEvent
			for {
				select {
				case ev, ok := <-ch:
					if !ok {
						return out
					}
					out = append(out, ev)
				default:
					if len(out) > 0 || true {
						// the converter goroutine hands events over one at a time: let it run
						detsim.Settle()
						select {
						case ev, ok := <-ch:
							if !ok {
								return out
							}
							out = append(out, ev)
							continue
						default:
						}
					}
					return out
				}
			}
		}
		te, ue := drain(n.t.Events), drain(n.u.Events)
		for _, e := range te {
			if e.Nil {
				detsim.Fail("typed-differs:events", "node%d: a stalled typed subscriber of package %s drained an event with a nil resource", i, sc.Kind)
			}
			if isForeign(e.Obj) {
				detsim.Fail("typed-differs:foreign-object-visible", "node%d: a stalled typed subscriber of package %s drained an event for the foreign-typed object %s", i, sc.Kind, e.Obj.ID())
			}
		}
		bs := sc.Bufsiz
		if bs <= 0 {
			bs = 100
		}
		// every apply after the node's creation is exactly one event for an
		// unfiltered subscriber; it may only lose what exceeds its buffer
		need := applies - n.appliesAtCreate
		if need > bs {
			need = bs
		}
		// a foreign-typed frame takes a slot of the buffer that feeds the typed
		// layer before it is skipped: each one may displace one event
		need -= foreigns - n.foreignAtCreate + srv.F.Fired["watch-foreign"]
		for p := n.parent; p != nil; p = p.parent {
			if p.kind != "clone" {
				need = 0 // below a filter the count is not determined by the writes alone
			}
		}
		if len(te) < need {
			detsim.Fail("typed-differs:stalled-consumer", "node%d: the stalled typed subscriber of package %s kept %d events (untyped: %d) although %d objects were written after its creation and its buffer holds %d: the typed layer lost events its buffer had room for", i, sc.Kind, len(te), len(ue), applies-n.appliesAtCreate, bs)
		}
		_ = published
	}
	troot.Close()
	uroot.Close()
	if !world.WaitClosed(troot.Done(), time.Millisecond) || !world.WaitClosed(uroot.Done(), time.Millisecond) {
		detsim.Fail("hang:Close", "typed or untyped root did not shut down")
	}
	detsim.Settle()
	checkNoLeak()
}

// sameUpToBatchOrder: the two sequences hold the same events (as multisets)
// and agree on the order of the events of every single key; the order of
// events of different keys inside one batch (one refilter / relist) is free.
func sameUpToBatchOrder(a, b []string) bool {
	if len(a) != len(b) {
		return false
	}
	keyOf := func(s string) string {
		// "<type> <ns>/<name>[@rv]" - names may contain spaces
		f := strings.SplitN(s, " ", 2)
		if len(f) < 2 {
			return s
		}
		k := f[1]
		if i := strings.LastIndex(k, "@"); i >= 0 {
			k = k[:i]
		}
		return k
	}
	pa, pb := map[string][]string{}, map[string][]string{}
	for _, s := range a {
		pa[keyOf(s)] = append(pa[keyOf(s)], s)
	}
	for _, s := range b {
		pb[keyOf(s)] = append(pb[keyOf(s)], s)
	}
	if len(pa) != len(pb) {
		return false
	}
	for k, sa := range pa {
		if !world.SameIDs(sa, pb[k]) {
			return false
		}
	}
	return true
}

// unitaryView: what a unitary handler must have been told, derived from the
// untyped monitor's record.
func unitaryView(calls []TCall) []string {
	var out []string
	for _, s := range callSigs(calls, true) {
		if strings.HasPrefix(s, "init [") {
			if strings.Count(s, "@") == 1 { // exactly one object in the restricted initial list
				out = append(out, s)
			}
			continue
		}
		out = append(out, s)
	}
	return out
}

func callSigs(calls []TCall, restrict bool) []string {
	var out []string
	for _, c := range calls {
		if c.Nil {
			out = append(out, c.Kind+" <nil>")
			continue
		}
		if c.Kind == "init" || len(c.Objs) == 0 {
			var keep []world.Spec
			for _, o := range c.Objs {
				if !restrict || !isForeign(o) {
					keep = append(keep, o)
				}
			}
			out = append(out, fmt.Sprintf("%s %v", c.Kind, world.SpecIDs(keep)))
			continue
		}
		if restrict && len(c.Objs) == 1 && isForeign(c.Objs[0]) {
			continue
		}
		if c.Kind == "delete" {
			out = append(out, "delete "+c.Objs[0].Key())
		} else {
			out = append(out, c.Kind+" "+c.Objs[0].Key()+"@"+c.Objs[0].RV)
		}
	}
	return out
}

// C20Mix: three runs out of four are the typed/untyped differential, the
// fourth exercises one of the eight GENERATED joins (the other behavioural
// clause of C20: a hand edit of one generated join file separates it from the
// selection its own rule prescribes, with the same scenario generator for all).
type C20Mix struct {
	Diff *Diff `json:"diff,omitempty"`
	Join *Join `json:"join,omitempty"`
	// Probe: the typed client of one package driven over client-go's REST layer
	// with a scripted transport (the last clause of C20)
	Probe *ClientProbe `json:"probe,omitempty"`
}

func AllKindsOf() []string { return world.AllKinds }

var generatedJoins = []string{"service", "rc", "rs", "deployment", "daemonset", "statefulset", "job", "ingress-service"}

func init() {
	Registry["C20"] = &Family{
		Gen: func(g GenCtx) interface{} {
			if g.Idx%4 == 3 {
				overrun := (g.Idx/4)%5 == 2 // the source monitor overruns its buffer (join.go: genJoinOverrun)
				j := genJoin(g, generatedJoins[(g.Idx/4)%len(generatedJoins)], overrun)
				if !overrun && j.Kind != "ingress-service" && g.Rng.Intn(2) == 0 {
					addDecisiveBurst(g.Rng, j) // the same decisive ordering scenario for every generated join
				}
				return &C20Mix{Join: j}
			}
			if g.Idx%16 == 14 {
				return &C20Mix{Probe: genClientProbe(g)}
			}
			return &C20Mix{Diff: genC20(g).(*Diff)}
		},
		New: func() interface{} { return &C20Mix{} },
		Run: func(sci interface{}) {
			m := sci.(*C20Mix)
			switch {
			case m.Probe != nil:
				runClientProbe(m.Probe)
			case m.Join != nil:
				runJoin(m.Join)
			case m.Diff != nil:
				runC20(m.Diff)
			}
		},
		Sim: func(sci interface{}) SimCfg {
			m := sci.(*C20Mix)
			if m.Probe != nil {
				return m.Probe.Sim
			}
			if m.Join != nil {
				return m.Join.Sim
			}
			if m.Diff != nil {
				return m.Diff.Sim
			}
			return SimCfg{}
		},
		Describe: func(sci interface{}) string {
			m := sci.(*C20Mix)
			if m.Probe != nil {
				return fmt.Sprintf("typed client of %s, namespace %q, %d calls over a scripted transport", m.Probe.Kind, m.Probe.NS, len(m.Probe.Ops))
			}
			if m.Join != nil {
				return "generated join: " + describeJoin(m.Join)
			}
			sc := m.Diff
			return fmt.Sprintf("package=%s foreign=%q bufsiz=%d init=%d acts=%d strategy=%s", sc.Kind, sc.Foreign, sc.Bufsiz, len(sc.Init), len(sc.Acts), sc.Sim.Strategy.Kind)
		},
		Nontrivial: func(sci interface{}, res *detsim.Result) bool {
			m := sci.(*C20Mix)
			if m.Probe != nil {
				return len(m.Probe.Ops) > 0
			}
			if m.Join != nil {
				return len(m.Join.Acts) > 0 && res.Contended > 10
			}
			return m.Diff != nil && len(m.Diff.Acts) > 1 && res.Contended > 10
		},
	}
}
