//go:build !kcinstr

package scen

func setEventBufsiz(n int) {}
