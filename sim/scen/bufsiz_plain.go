//go:build !verif

package scen

func setEventBufsiz(n int) {}
