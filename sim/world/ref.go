package world

import (
	"fmt"
	"sort"
	"strconv"
)

// RefCache is the executable reference model of the cache (written from the
// statements of C01/C02, not from cache.go).
type RefCache struct {
	Pred  func(Spec) bool
	Items map[string]Spec
}

type RefEvent struct {
	Type string // create | update | delete
	Obj  Spec
}

func (e RefEvent) String() string { return e.Type + " " + e.Obj.ID() }

func NewRefCache(pred func(Spec) bool) *RefCache {
	return &RefCache{Pred: pred, Items: map[string]Spec{}}
}

func ver(s Spec) (int, bool) {
	v, err := strconv.Atoi(s.RV)
	return v, err == nil
}

func (r *RefCache) upsert(o Spec, evs *[]RefEvent) {
	v, ok := ver(o)
	if !ok {
		return
	}
	cur, present := r.Items[o.Key()]
	acc := r.Pred(o)
	switch {
	case !present && acc:
		r.Items[o.Key()] = o
		*evs = append(*evs, RefEvent{"create", o})
	case !present:
	default:
		cv, _ := ver(cur)
		if v <= cv {
			return
		}
		if acc {
			r.Items[o.Key()] = o
			*evs = append(*evs, RefEvent{"update", o})
		} else {
			delete(r.Items, o.Key())
			*evs = append(*evs, RefEvent{"delete", o})
		}
	}
}

// Update applies one watch event. For a delete with a version older than the
// cached one the property leaves the outcome unspecified: staleDeleteApplied
// tells the model what the implementation did (nil = apply).
func (r *RefCache) Update(typ string, o Spec) []RefEvent {
	var evs []RefEvent
	if _, ok := ver(o); !ok {
		return nil
	}
	if typ == "delete" {
		if cur, present := r.Items[o.Key()]; present {
			delete(r.Items, o.Key())
			evs = append(evs, RefEvent{"delete", cur})
		}
		return evs
	}
	r.upsert(o, &evs)
	return evs
}

// Sync reconciles against a complete list.
func (r *RefCache) Sync(list []Spec) []RefEvent {
	var evs []RefEvent
	mentioned := map[string]bool{}
	for _, o := range list {
		if _, ok := ver(o); !ok {
			continue
		}
		mentioned[o.Key()] = true
		r.upsert(o, &evs)
	}
	keys := make([]string, 0, len(r.Items))
	for k := range r.Items {
		keys = append(keys, k)
	}
	sort.Strings(keys)
	for _, k := range keys {
		cur := r.Items[k]
		if !mentioned[k] || !r.Pred(cur) {
			delete(r.Items, k)
			evs = append(evs, RefEvent{"delete", cur})
		}
	}
	return evs
}

func (r *RefCache) Refilter(list []Spec, pred func(Spec) bool) []RefEvent {
	r.Pred = pred
	return r.Sync(list)
}

func (r *RefCache) List() []Spec {
	out := make([]Spec, 0, len(r.Items))
	for _, o := range r.Items {
		out = append(out, o)
	}
	sort.Slice(out, func(i, j int) bool { return out[i].Key() < out[j].Key() })
	return out
}

func (r *RefCache) Clone() *RefCache {
	c := NewRefCache(r.Pred)
	for k, v := range r.Items {
		c.Items[k] = v
	}
	return c
}

// Mirror replays an event stream with strict well-formedness.  It is seeded
// from a List() taken after the subscription was created; events already
// reflected in that list may still be queued, so per key a bounded overlap
// window is tolerated until the first effective event for that key.
type Mirror struct {
	Items   map[string]Spec
	touched map[string]bool
	Name    string
	Strict  bool // no overlap tolerance (seed and stream start are known to coincide)
}

func NewMirror(name string, initial []Spec) *Mirror {
	m := &Mirror{Items: map[string]Spec{}, touched: map[string]bool{}, Name: name}
	for _, o := range initial {
		m.Items[o.Key()] = o
	}
	return m
}

// Apply returns a non-empty string describing a malformed event.
func (m *Mirror) Apply(typ string, o Spec) string {
	k := o.Key()
	cur, present := m.Items[k]
	fresh := !m.touched[k] && !m.Strict
	v, okv := ver(o)
	if !okv {
		return fmt.Sprintf("%s: event %s %s carries a non-numeric version", m.Name, typ, o.ID())
	}
	switch typ {
	case "create":
		if present {
			cv, _ := ver(cur)
			if fresh && v <= cv {
				return "" // already reflected in the seed list
			}
			return fmt.Sprintf("%s: Create %s for a key that is present (%s)", m.Name, o.ID(), cur.ID())
		}
		m.Items[k] = o
	case "update":
		if !present {
			if fresh {
				// the seed list was taken after a later delete of this key
				return ""
			}
			return fmt.Sprintf("%s: Update %s for an absent key", m.Name, o.ID())
		}
		cv, _ := ver(cur)
		if v <= cv {
			if fresh {
				return ""
			}
			return fmt.Sprintf("%s: Update %s is not newer than %s", m.Name, o.ID(), cur.ID())
		}
		m.Items[k] = o
	case "delete":
		if !present {
			if fresh {
				return ""
			}
			return fmt.Sprintf("%s: Delete %s for an absent key", m.Name, o.ID())
		}
		if fresh {
			cv, _ := ver(cur)
			if v < cv {
				// delete of an older incarnation that the seed list already replaced
				return ""
			}
		}
		delete(m.Items, k)
	default:
		return fmt.Sprintf("%s: unknown event type %q", m.Name, typ)
	}
	m.touched[k] = true
	return ""
}

func (m *Mirror) List() []Spec {
	out := make([]Spec, 0, len(m.Items))
	for _, o := range m.Items {
		out = append(out, o)
	}
	sort.Slice(out, func(i, j int) bool { return out[i].Key() < out[j].Key() })
	return out
}

// ReplayWithUnknownOverlap: a consumer took 'seed' at an unknown instant while
// events were already queued for it; some prefix of 'events' is therefore
// already reflected in the seed.  It returns true iff for SOME split point the
// remaining events replay strictly (well-formed) over the seed and end in
// 'final'.  Sound for any alignment, strict after it.
func ReplayWithUnknownOverlap(name string, seed []Spec, types []string, objs []Spec, final []string) (bool, string) {
	last := ""
	for j := 0; j <= len(types); j++ {
		m := NewMirror(name, seed)
		m.Strict = true
		ok := true
		for i := j; i < len(types); i++ {
			if msg := m.Apply(types[i], objs[i]); msg != "" {
				ok = false
				last = msg
				break
			}
		}
		if ok {
			got := SpecIDs(m.List())
			if SameIDs(got, final) {
				return true, ""
			}
			last = fmt.Sprintf("replay from callback #%d gives %v", j+1, got)
		}
	}
	return false, last
}
