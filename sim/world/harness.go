package world

import (
	"context"
	"fmt"
	"strings"
	"time"

	"detsim"

	logutil "github.com/boz/go-logutil"
	"github.com/boz/kcache"
	"github.com/boz/kcache/filter"
	metav1 "k8s.io/apimachinery/pkg/apis/meta/v1"
)

type RecEvent struct {
	Type string
	Obj  Spec
	Step int
	At   time.Duration
	Seq  int // global receive sequence number across all readers
}

func (e RecEvent) Sig() string {
	if e.Type == "delete" {
		return "delete " + e.Obj.Key()
	}
	return e.Type + " " + e.Obj.Key() + "@" + e.Obj.RV
}

type MonCall struct {
	Kind  string // init | create | update | delete
	Objs  []Spec
	Enter int
	Exit  int
}

// NodeRT is one consumer node of the publisher tree at run time.
type NodeRT struct {
	ID        int
	Kind      string // sub subf subff clone clonef cloneff monitor
	Parent    *NodeRT
	Filter    FilterSpec
	PrevFilter      *FilterSpec   // the filter in force before the last accepted Refilter (the library may still be applying the last one)
	PendingFilter   *FilterSpec   // filter of the Refilter call in flight (set before the call)
	refLock         chan struct{} // serialises Refilter calls on this node: 'most recently set filter' is only defined for ordered calls
	RefilterPending bool // a Refilter call has been issued (set before the call)
	HasFilter bool // a filter is in force (immediate variants: always; deferred: after first accepted Refilter)
	Deferred  bool

	Sub  kcache.Subscription
	FSub kcache.FilterSubscription
	Pub  kcache.Controller
	FPub kcache.FilterController
	Mon  kcache.Monitor
	MonSub kcache.Subscription

	Reader      string // eager | slow | stalled | none
	SlowEvery   time.Duration
	Events      []RecEvent
	Mirror      *Mirror
	SeedStep    int
	SawClose    bool
	ReaderExit  chan struct{}
	CreatedStep int
	CreatedSeq  int // global event sequence number when the node was created
	CreatedRV   int // server version when the Subscribe/Clone call returned
	WeClosed    bool
	DrainPoints []DrainPoint // partial drains of a stalled reader, made at quiescent points
	// SelfCloseAt > 0: the monitor's own handler calls Close() from inside its
	// SelfCloseAt-th callback (the "watch until X, then stop" pattern)
	NoInit      bool // the monitor's handler registers no OnInitialize
	hslot       *handlerSlot
	RacyDrain   bool            // the consumer woke up and drained while events were in flight (no exact count can be demanded of it)
	keptInit    []metav1.Object // the slice OnInitialize was handed, kept by the handler
	keptIDs     []string
	hval        kcache.Handler
	sf          *StatefulFilter
	BeforeTraffic bool // created before anything was written to the server after its initial content
	SelfCloseAt int
	CbAct       string // what that callback does: close-self (default), close-parent, close-root, list, subscribe
	selfClosed  bool
	MonLog      []MonCall
	monBusy     bool
	HandlerMs   int
	BlockHandler chan struct{} // if non-nil every callback blocks on it
	EventBeforeReady bool
	FeedFull         bool // (publisher nodes) the feeding subscription's buffer was observed full
	mirrorDead       bool // the mirror was given up (overflow): never re-seed
	WasFull          bool // the subscription's buffer was observed full: it may legitimately have lost events
}

func (n *NodeRT) Name() string { return fmt.Sprintf("node%d(%s)", n.ID, n.Kind) }

func (n *NodeRT) IsPublisher() bool { return n.Pub != nil }

func (n *NodeRT) Filtered() bool { return n.Kind == "subf" || n.Kind == "subff" || n.Kind == "clonef" || n.Kind == "cloneff" }

// H is the harness for one controller over one simulated API server.
type H struct {
	Srv    *Server
	Ctrl   kcache.Controller
	Log    logutil.Log
	Ctx    context.Context
	Cancel context.CancelFunc
	Nodes  []*NodeRT

	RootFilter FilterSpec
	KeepInitAlways bool // every handler keeps the list OnInitialize handed it
	RootSwitch bool // the root filter is a stateful user object (FlipRoot changes what it accepts)
	rootSF     *StatefulFilter
	RootPred   func(Spec) bool
	Period     time.Duration

	// Overflow: the library reported a full subscriber buffer ("event buffer
	// overrun"); from then on event streams may legitimately have gaps.
	Overflow         bool
	ExpectNoOverflow bool
	ShareHB          bool
	TwinSrv          *Server           // if set: the builder is reused, with this server as client, for a second controller
	Twin             kcache.Controller // that second controller
	NextStateful      bool // the next immediate filtered node gets a stateful user filter object (same pointer on every Refilter)
	StartRV           int  // server version when the controller was started (nothing had been written after the initial content)
	NextReuseHandlerOf *NodeRT // the next monitor made is given the Handler VALUE of this (finished) monitor
	NextMonitorNoInit bool // the next monitor made gets a handler without OnInitialize
	hb               kcache.HandlerBuilder
	// OnCbAct is told about an API call a monitor callback is about to make
	OnCbAct func(n *NodeRT, act string)
	OverflowSeen     bool // any subscriber-buffer overflow was logged (set in every mode)
	PerNodeOverflow  bool // do not give up strict mirrors globally on an overflow log: only nodes whose own buffer was seen full are exempt
	WatchOverflow    bool // watcher/session buffer overflow: watch events lost until the next relist
	EvSeq       int // global receive counter
	MaxSeenVer  int // highest version any reader has received (C04 resume lower bound)
	GetCheck    bool
	StaticAtReady bool // the scenario keeps the server unchanged until every node is ready: content at Ready() is exactly determined
	RootDown    func() bool // the scenario has shut the controller down (or is doing so right now)
	NoRelist    bool
}

func NewH(srv *Server, rootFilter FilterSpec, period time.Duration, logYield bool) *H {
	h := &H{Srv: srv, RootFilter: rootFilter, RootPred: rootFilter.Pred(), Period: period}
	lg := NewLog(logYield)
	lg.Hook = func(level, comp, msg string) {
		switch {
		case strings.Contains(msg, "event buffer overrun"):
			h.OverflowSeen = true
			if !h.PerNodeOverflow {
				h.Overflow = true
			}
			detsim.Count("probe:subscriber-buffer-overflow")
			if h.ExpectNoOverflow {
				detsim.Fail("unexpected-overflow", "%s logged %q although every consumer keeps its backlog far below the buffer size", comp, msg)
			}
		case strings.Contains(msg, "output buffer full"):
			h.WatchOverflow = true
			detsim.Count("probe:watch-buffer-overflow")
		}
	}
	h.Log = lg
	srv.OnWatch = func(c *WatchCall) { c.Floor = h.MaxSeenVer }
	h.Ctx, h.Cancel = context.WithCancel(context.Background())
	return h
}

// Start builds the real controller over the simulated client.
func (h *H) Start() {
	h.StartRV = h.Srv.RV()
	// the builder's setters are called in a drawn order (and the lister handle
	// is taken before or after the client is set): configuration must not depend
	// on the order in which it is given
	b := kcache.NewBuilder()
	lb := b.Lister()
	early := detsim.Choose("builder-lister-handle-early", 2) == 1
	steps := []func(){
		func() { b.Context(h.Ctx) },
		func() { b.Log(h.Log) },
		func() { b.Client(h.Srv) },
		func() {
			if h.RootSwitch {
				// the controller's filter is an object of the application whose
				// answers depend on state the application changes at run time
				h.rootSF = &StatefulFilter{cur: h.RootFilter.Build()}
				b.Filter(h.rootSF)
				return
			}
			b.Filter(h.RootFilter.Build())
		},
		func() {
			if early {
				lb.RefreshPeriod(h.Period)
			} else {
				b.Lister().RefreshPeriod(h.Period)
			}
		},
	}
	if detsim.Choose("builder-split-client", 4) == 0 {
		// the client given to lister and watcher separately
		steps[2] = func() { b.Lister().Client(h.Srv); b.Watcher().Client(h.Srv) }
	}
	for len(steps) > 0 {
		i := detsim.Choose("builder-order", len(steps))
		steps[i]()
		steps = append(steps[:i], steps[i+1:]...)
	}
	c, err := b.Create()
	if err != nil {
		detsim.Fail("infra:builder", "builder.Create: %v", err)
	}
	h.Ctrl = c
	if h.TwinSrv != nil {
		// the factory pattern: the same builder, pointed at another client, makes a
		// second controller - a controller is configured by what the builder held
		// when Create() was called, not by what it holds later
		b.Client(h.TwinSrv)
		b.Filter(filter.All()) // (and with another filter: the second controller wants nothing at all)
		t, err := b.Create()
		if err != nil {
			detsim.Fail("infra:builder", "second builder.Create: %v", err)
		}
		h.Twin = t
		detsim.Count("probe:builder-reused-for-a-second-controller")
	}
}

// Overflow detection is semantic, not textual: detsim counts every value
// dropped by a non-blocking send on a full buffer (anywhere in the library)
// and knows on which channel.  Drops on a subscriber's own Events() buffer are
// attributed to that node; all other drops happened inside the pipeline
// ("hidden": watcher / session / feeding subscriptions / typed layers).
func (h *H) visibleDrops() int {
	n := 0
	for _, x := range h.Nodes {
		if x.Sub != nil && x.Mon == nil {
			n += detsim.DropsOn(x.Sub.Events())
		}
		if x.MonSub != nil {
			n += detsim.DropsOn(x.MonSub.Events())
		}
	}
	return n
}

// recPub records the subscription a monitor creates for itself.
type recPub struct {
	kcache.Publisher
	last kcache.Subscription
	lag  int
}

func (r *recPub) Subscribe() (kcache.Subscription, error) {
	// (a decorator that takes its time: whatever the caller looked at before
	// subscribing has aged by a few hand-offs of the pipeline)
	for i := 0; i < r.lag; i++ {
		detsim.Yield("monitor-subscribe")
	}
	s, err := r.Publisher.Subscribe()
	if err == nil {
		r.last = s
	}
	return s, err
}

// recCtrl: the same decorator around a whole Controller.
type recCtrl struct {
	kcache.Controller
	rec *recPub
}

func (r *recCtrl) Subscribe() (kcache.Subscription, error) { return r.rec.Subscribe() }

func (h *H) hiddenDrops() int { return detsim.TotalDrops() - h.visibleDrops() }

// Overflowed: event streams may legitimately have gaps for everybody (strict
// replay and exact sequences are off).  In per-node mode (C10) only hidden
// drops count; a subscriber's own overflow concerns that subscriber alone.
func (h *H) Overflowed() bool {
	if h.Overflow || h.hiddenDrops() > 0 {
		return true
	}
	return !h.PerNodeOverflow && detsim.TotalDrops() > 0
}

// WatchLossPossible: something was dropped before it reached the controller
// cache's consumers in order (the cache may be behind until the next relist).
func (h *H) WatchLossPossible() bool { return h.WatchOverflow || h.hiddenDrops() > 0 }

// Lost: this subscriber's own buffer overflowed at some point.
func (n *NodeRT) Lost() bool {
	if n.MonSub != nil {
		return detsim.DropsOn(n.MonSub.Events()) > 0
	}
	return n.Sub != nil && detsim.DropsOn(n.Sub.Events()) > 0
}

// Invariant is evaluated by the scheduler after every step (no channel
// operations allowed here).  It tracks which subscriber buffers were ever full
// and flags events that become visible before Ready().
func (h *H) Invariant() (string, string) {
	if h.ExpectNoOverflow && detsim.TotalDrops() > 0 {
		return "unexpected-overflow", "a non-blocking hand-off dropped an event although every consumer keeps its backlog far below the buffer size"
	}
	for _, n := range h.Nodes {
		if n.Sub == nil || n.Mon != nil {
			continue
		}
		ch := n.Sub.Events()
		l := len(ch)
		if l > 0 && l == cap(ch) {
			n.WasFull = true
		}
		if l > 0 && !n.EventBeforeReady && !detsim.IsClosed(n.Sub.Ready()) {
			n.EventBeforeReady = true
			return "event-before-ready", fmt.Sprintf("%s: %d event(s) queued on Events() while Ready() is still open", n.Name(), l)
		}
	}
	return "", ""
}

// WaitClosed waits for a signal channel for at most d of simulated time.
func WaitClosed(ch <-chan struct{}, d time.Duration) bool {
	t := detsim.NewTimerAt("deadline", d)
	defer t.Stop()
	select {
	case <-ch:
		return true
	case <-t.C:
		return false
	}
}

func (h *H) publisherOf(parent *NodeRT) kcache.Publisher {
	if parent == nil {
		return h.Ctrl
	}
	if parent.FPub != nil {
		return parent.FPub
	}
	return parent.Pub
}

// PublisherName: "the controller" or the node's name.
func (h *H) PublisherName(n *NodeRT) string {
	if n == nil {
		return "the controller"
	}
	return n.Name()
}

// PublisherOf: the publisher behind a node (nil = the root controller).
func (h *H) PublisherOf(n *NodeRT) kcache.Publisher { return h.publisherOf(n) }

func (h *H) CacheOf(n *NodeRT) kcache.CacheReader {
	switch {
	case n == nil:
		return h.Ctrl.Cache()
	case n.FSub != nil:
		return n.FSub.Cache()
	case n.Sub != nil:
		return n.Sub.Cache()
	case n.FPub != nil:
		return n.FPub.Cache()
	case n.Pub != nil:
		return n.Pub.Cache()
	}
	return nil
}

func (h *H) ReadyOf(n *NodeRT) <-chan struct{} {
	switch {
	case n == nil:
		return h.Ctrl.Ready()
	case n.FSub != nil:
		return n.FSub.Ready()
	case n.Sub != nil:
		return n.Sub.Ready()
	case n.FPub != nil:
		return n.FPub.Ready()
	case n.Pub != nil:
		return n.Pub.Ready()
	}
	return nil
}

func (h *H) DoneOf(n *NodeRT) <-chan struct{} {
	switch {
	case n == nil:
		return h.Ctrl.Done()
	case n.Mon != nil:
		return n.Mon.Done()
	case n.FSub != nil:
		return n.FSub.Done()
	case n.Sub != nil:
		return n.Sub.Done()
	case n.FPub != nil:
		return n.FPub.Done()
	case n.Pub != nil:
		return n.Pub.Done()
	}
	return nil
}

func (h *H) CloseNode(n *NodeRT) {
	if n == nil {
		h.Ctrl.Close()
		return
	}
	n.WeClosed = true
	switch {
	case n.Mon != nil:
		n.Mon.Close()
	case n.FSub != nil:
		n.FSub.Close()
	case n.Sub != nil:
		n.Sub.Close()
	case n.FPub != nil:
		n.FPub.Close()
	case n.Pub != nil:
		n.Pub.Close()
	}
}

// MakeNode creates a consumer below parent (nil = the root controller).
func (h *H) MakeNode(parent *NodeRT, kind string, f FilterSpec, reader string) (*NodeRT, error) {
	n := &NodeRT{ID: len(h.Nodes), Kind: kind, Parent: parent, Reader: reader, ReaderExit: make(chan struct{})}
	pub := h.publisherOf(parent)
	if pub == nil {
		return nil, fmt.Errorf("parent %v is not a publisher", parent.Name())
	}
	var err error
	switch kind {
	case "sub":
		n.Sub, err = pub.Subscribe()
	case "subf":
		n.FSub, err = pub.SubscribeWithFilter(h.filterFor(n, f))
		n.Filter, n.HasFilter = f, true
	case "subff":
		n.FSub, err = pub.SubscribeForFilter()
		n.Deferred = true
		n.Filter = FilterSpec{Op: "all"}
	case "clone":
		n.Pub, err = pub.Clone()
	case "clonef":
		n.FPub, err = pub.CloneWithFilter(h.filterFor(n, f))
		n.Filter, n.HasFilter = f, true
	case "cloneff":
		n.FPub, err = pub.CloneForFilter()
		n.Deferred = true
		n.Filter = FilterSpec{Op: "all"}
	case "monitor":
		rp := &recPub{Publisher: pub, lag: (len(h.Nodes) % 4) * 4}
		n.NoInit, h.NextMonitorNoInit = h.NextMonitorNoInit, false
		if c, ok := pub.(kcache.Controller); ok {
			// the decorator is a Controller like the thing it wraps (Cache(), Ready(),
			// ... are all there): what NewMonitor can find out about a controller by
			// type assertion it can find out about this one
			n.Mon, err = kcache.NewMonitor(&recCtrl{Controller: c, rec: rp}, h.handler(n))
		} else {
			n.Mon, err = kcache.NewMonitor(rp, h.handler(n))
		}
		n.MonSub = rp.last // the monitor's private subscription (to attribute buffer overflows to it)
	default:
		panic("world: unknown node kind " + kind)
	}
	if err != nil {
		return nil, err
	}
	if n.FSub != nil {
		n.Sub = n.FSub
	}
	if n.FPub != nil {
		n.Pub = n.FPub
	}
	n.CreatedStep = detsim.Steps()
	n.CreatedSeq = h.EvSeq
	n.CreatedRV = h.Srv.RV()
	n.BeforeTraffic = h.Srv.RV() == h.StartRV
	h.Nodes = append(h.Nodes, n)
	detsim.Note("mknode %s parent=%v filter=%s", n.Name(), parentID(parent), f.String())
	if n.Sub != nil && n.Mon == nil && (reader == "eager" || reader == "slow") {
		go h.reader(n)
	}
	return n, nil
}

func parentID(p *NodeRT) int {
	if p == nil {
		return -1
	}
	return p.ID
}

func specsOf(objs []metav1.Object) []Spec {
	out := make([]Spec, 0, len(objs))
	for _, o := range objs {
		out = append(out, SpecOf(o))
	}
	return out
}

func evType(t kcache.EventType) string { return string(t) }

// reader consumes a subscription: seeds a mirror at readiness and replays
// every event into it with strict well-formedness.
func (h *H) reader(n *NodeRT) {
	defer close(n.ReaderExit)
	sub := n.Sub
	select {
	case <-sub.Ready():
		if h.StaticAtReady {
			cands := n.filterCands(nil)
			if list, err := sub.Cache().List(); err == nil {
				cands = n.filterCands(cands)
				specs := specsOf(list)
				Scribble(list)
				h.checkSyncedAtReady(n, specs, cands)
			}
		}
	case <-sub.Done():
	}
	for {
		if n.Reader == "slow" && n.SlowEvery > 0 {
			time.Sleep(n.SlowEvery)
		}
		ev, ok := <-sub.Events()
		if !ok {
			n.SawClose = true
			detsim.Note("%s events closed after %d events", n.Name(), len(n.Events))
			return
		}
		h.record(n, ev)
	}
}

func (h *H) record(n *NodeRT, ev kcache.Event) {
	if ev == nil || ev.Resource() == nil {
		detsim.Fail("malformed-event", "%s received a nil event/resource", n.Name())
	}
	spec := SpecOf(ev.Resource())
	h.EvSeq++
	re := RecEvent{Type: evType(ev.Type()), Obj: spec, Step: detsim.Steps(), At: detsim.Elapsed(), Seq: h.EvSeq}
	n.Events = append(n.Events, re)
	detsim.Note("%s <- %s", n.Name(), re.Sig())
	if v := spec.Ver(); v > h.MaxSeenVer && re.Type != "delete" {
		h.MaxSeenVer = v
	}
	if h.Overflowed() || n.Lost() {
		n.mirrorDead = true
		n.Mirror = nil // gaps are legitimate from now on; strict replay is meaningless
	}
	if n.Mirror != nil {
		if msg := n.Mirror.Apply(re.Type, spec); msg != "" {
			detsim.Fail("malformed-event", "%s (event #%d of this subscriber)", msg, len(n.Events))
		}
	}
	if h.GetCheck && re.Type != "delete" && !h.anyFilteredAncestor(n) {
		// C05 (iv): the cache is never older than an event already received
		got, err := n.Sub.Cache().Get(spec.NS, spec.Name)
		if err == nil {
			if got == nil {
				if !h.lateDeleted(spec) {
					detsim.Fail("cache-older-than-event", "%s received %s but Cache().Get returned nil although the server never deleted the object after that version", n.Name(), re.Sig())
				}
			} else if gs := SpecOf(got); gs.Ver() < spec.Ver() {
				detsim.Fail("cache-older-than-event", "%s received %s but Cache().Get returned older %s", n.Name(), re.Sig(), gs.ID())
			}
		}
	}
}

// AnyFilteredAncestorOrSelf: some filter (node-level or the controller's) sits between n and the server.
func (h *H) AnyFilteredAncestorOrSelf(n *NodeRT) bool { return h.anyFilteredAncestor(n) }

func (h *H) anyFilteredAncestor(n *NodeRT) bool {
	for p := n; p != nil; p = p.Parent {
		if p.Filtered() {
			return true
		}
	}
	return h.RootFilter.Op != "" && h.RootFilter.Op != "null"
}

// lateDeleted: the server deleted the key at a version later than spec's.
func (h *H) lateDeleted(spec Spec) bool {
	for _, e := range h.Srv.History() {
		if e.Obj.Key() == spec.Key() && e.Type == "DELETED" && e.RV > spec.Ver() {
			return true
		}
	}
	return false
}

// checkSyncedAtReady: C08 (iii) - a cache read made once Ready() is observed
// already returns the synced content (the parent is static in these runs).
// filterCands collects the filters that are in force or in flight right now.
func (n *NodeRT) filterCands(acc []FilterSpec) []FilterSpec {
	acc = append(acc, n.Filter)
	if n.PendingFilter != nil {
		acc = append(acc, *n.PendingFilter)
	}
	if n.PrevFilter != nil {
		acc = append(acc, *n.PrevFilter)
	}
	return acc
}

func (h *H) checkSyncedAtReady(n *NodeRT, got []Spec, cands []FilterSpec) {
	for p := n.Parent; p != nil; p = p.Parent {
		if p.Filtered() {
			return // the parent's own content moves with its Refilter calls: not static
		}
	}
	_, parent, ok := ListIDs(h.CacheOf(n.Parent))
	if !ok {
		return
	}
	if n.Parent == nil && !SameIDs(SpecIDs(parent), SpecIDs(h.ExpectRoot())) {
		return // the server moved although the run was declared static (possible only after shrinking): nothing to compare
	}
	gotIDs := SpecIDs(got)
	if !n.Filtered() {
		if want := SpecIDs(parent); !SameIDs(gotIDs, want) {
			detsim.Fail("not-synced-at-ready", "%s observed Ready() but its cache read returned %v; the (static) parent content is %v", n.Name(), gotIDs, want)
		}
		return
	}
	for _, f := range cands {
		if SameIDs(gotIDs, SpecIDs(FilterSpecs(parent, f.Pred()))) {
			return
		}
	}
	detsim.Fail("not-synced-at-ready", "%s observed Ready() but its cache read returned %v; the (static) parent content is %v and its filter is %s", n.Name(), gotIDs, SpecIDs(parent), n.Filter.String())
}

// Drain reads whatever is buffered in a (stalled) subscription until it would block.
func (h *H) Drain(n *NodeRT) {
	for {
		select {
		case ev, ok := <-n.Sub.Events():
			if !ok {
				n.SawClose = true
				return
			}
			h.record(n, ev)
		default:
			return
		}
	}
}

// DrainSome reads at most k events from a stalled subscriber (k <= 0: all that
// are buffered) at a quiescent point and remembers where in the published
// sequence that happened: the count oracle replays the buffer from these points.
func (h *H) DrainSome(n *NodeRT, k int) int {
	got := 0
	for k <= 0 || got < k {
		select {
		case ev, ok := <-n.Sub.Events():
			if !ok {
				n.SawClose = true
				n.DrainPoints = append(n.DrainPoints, DrainPoint{AtSeq: h.EvSeq, K: got})
				return got
			}
			h.record(n, ev)
			got++
			continue
		default:
		}
		break
	}
	// (recording bumps EvSeq: the boundary is what had been published before)
	n.DrainPoints = append(n.DrainPoints, DrainPoint{AtSeq: h.EvSeq - got, K: got})
	return got
}

// DrainPoint: K events were taken out when the global event sequence stood at AtSeq.
type DrainPoint struct {
	AtSeq int
	K     int
}

func (h *H) handler(first *NodeRT) kcache.Handler {
	if r := h.NextReuseHandlerOf; r != nil && r.hval != nil {
		// the SAME Handler value a finished monitor used, attached to a new one
		h.NextReuseHandlerOf = nil
		first.hslot, first.hval = r.hslot, r.hval
		first.hslot.n = first
		first.NoInit = r.NoInit // what the handler value was built with
		detsim.Count("probe:handler-value-reused-by-a-later-monitor")
		return first.hval
	}
	slot := &handlerSlot{n: first}
	first.hslot = slot
	hv := h.handlerFor(slot)
	if first.ID%3 == 1 {
		// the application's own implementation of the Handler interface (a
		// decorator around its callbacks), not a value made by BuildHandler()
		detsim.Count("probe:hand-written-handler-type")
		hv = &userHandler{inner: hv}
	}
	first.hval = hv
	return hv
}

// CheckKeptInit: the slice a handler was given in OnInitialize and kept is
// still what it was (nobody else writes to it, whatever is listed later).
func (n *NodeRT) CheckKeptInit() {
	if n.keptInit == nil {
		return
	}
	for _, o := range n.keptInit {
		if o == nil {
			detsim.Fail("monitor-init-slice-changed", "%s: the list its handler was given in OnInitialize and kept now has a nil element (its storage was handed to somebody else)\n  at the callback: %v", n.Name(), n.keptIDs)
		}
	}
	if now := IDs(n.keptInit); !SameIDs(now, n.keptIDs) {
		detsim.Fail("monitor-init-slice-changed", "%s: the list its handler was given in OnInitialize changed after the callback returned (its storage was handed to somebody else)\n  at the callback: %v\n  now            : %v", n.Name(), n.keptIDs, now)
	}
}

// userHandler: a Handler implemented by the application.
type userHandler struct {
	inner kcache.Handler
	calls int
}

func (u *userHandler) OnInitialize(objs []metav1.Object) { u.calls++; u.inner.OnInitialize(objs) }
func (u *userHandler) OnCreate(obj metav1.Object)        { u.calls++; u.inner.OnCreate(obj) }
func (u *userHandler) OnUpdate(obj metav1.Object)        { u.calls++; u.inner.OnUpdate(obj) }
func (u *userHandler) OnDelete(obj metav1.Object)        { u.calls++; u.inner.OnDelete(obj) }

// handlerSlot: the monitor a handler value currently reports for.
type handlerSlot struct{ n *NodeRT }

func (h *H) handlerFor(slot *handlerSlot) kcache.Handler {
	n := slot.n // (only read where the handler is BUILT; callbacks go through the slot)
	enter := func(kind string, objs []Spec) int {
		n := slot.n
		n.CheckKeptInit()
		if n.monBusy {
			detsim.Fail("monitor-concurrent-callback", "%s: callback %s entered while another callback is executing", n.Name(), kind)
		}
		if n.Mon != nil && detsim.IsClosed(n.Mon.Done()) {
			detsim.Fail("monitor-callback-after-done", "%s: callback %s entered after Done() closed", n.Name(), kind)
		}
		n.monBusy = true
		n.MonLog = append(n.MonLog, MonCall{Kind: kind, Objs: objs, Enter: detsim.Steps()})
		detsim.Note("%s callback %s %v", n.Name(), kind, SpecIDs(objs))
		if n.HandlerMs > 0 {
			time.Sleep(time.Duration(n.HandlerMs) * time.Millisecond)
		} else {
			detsim.Yield("handler")
		}
		if n.BlockHandler != nil {
			<-n.BlockHandler
		}
		if n.SelfCloseAt > 0 && !n.selfClosed && len(n.MonLog) >= n.SelfCloseAt && n.Mon != nil {
			n.selfClosed = true
			act := n.CbAct
			if act == "" {
				act = "close-self"
			}
			detsim.Note("%s: %s from inside callback %s", n.Name(), act, kind)
			detsim.Count("probe:callback-api-call:" + act)
			if h.OnCbAct != nil {
				h.OnCbAct(n, act)
			}
			switch act {
			case "close-self":
				n.WeClosed = true
				n.Mon.Close()
			case "close-parent":
				h.CloseNode(n.Parent)
			case "close-root":
				h.Ctrl.Close()
			case "list":
				if c := h.CacheOf(n.Parent); c != nil {
					c.List()
				}
			case "subscribe":
				// a short-lived sibling created and closed from inside the callback
				if pub := h.publisherOf(n.Parent); pub != nil {
					if sub, err := pub.Subscribe(); err == nil {
						sub.Close()
						<-sub.Done()
					}
				}
			}
		}
		return len(n.MonLog) - 1
	}
	exit := func(i int) {
		n := slot.n
		n.MonLog[i].Exit = detsim.Steps()
		n.monBusy = false
	}
	one := func(kind string) func(metav1.Object) {
		return func(o metav1.Object) {
			var s Spec
			if o == nil {
				s = Spec{Name: "<nil>"}
			} else {
				s = SpecOf(o)
			}
			exit(enter(kind, []Spec{s}))
		}
	}
	// ShareHB: every monitor's handler is derived from one long-lived builder
	// (a template builder reused after Create()), not from a fresh one
	hb := kcache.BuildHandler()
	if h.ShareHB {
		if h.hb == nil {
			h.hb = kcache.BuildHandler()
		}
		hb = h.hb
	}
	if n.NoInit {
		// a "changes only" handler: no OnInitialize is registered at all
		// (a reused builder is reset explicitly, as a user would have to)
		return hb.OnInitialize(nil).OnCreate(one("create")).OnUpdate(one("update")).OnDelete(one("delete")).Create()
	}
	return hb.
		OnInitialize(func(objs []metav1.Object) {
			n := slot.n
			specs := specsOf(objs)
			for _, o := range objs {
				if o == nil {
					detsim.Fail("monitor-init-wrong-content", "%s: OnInitialize was handed a list with a nil element (a slice shared with another consumer)", n.Name())
				}
			}
			if n.ID%2 == 0 && !h.KeepInitAlways {
				Scribble(objs) // the list handed to OnInitialize is the handler's own
			} else {
				// ... and it stays the handler's own after the callback has returned
				n.keptInit, n.keptIDs = objs, IDs(objs)
				detsim.Count("probe:handler-keeps-its-initial-list")
			}
			exit(enter("init", specs))
		}).
		OnCreate(one("create")).
		OnUpdate(one("update")).
		OnDelete(one("delete")).
		Create()
}

// MonitorsBusy reports whether some monitor callback is executing.
func (h *H) MonitorsBusy() bool {
	for _, n := range h.Nodes {
		if n.Mon != nil && n.monBusy {
			return true
		}
	}
	return false
}

// Refilter submits a new filter to a filtered node.
func (h *H) Refilter(n *NodeRT, f FilterSpec) error {
	var err error
	if n.refLock == nil {
		n.refLock = make(chan struct{}, 1)
	}
	n.refLock <- struct{}{}
	defer func() { <-n.refLock }()
	n.RefilterPending = true
	ff := f
	n.PendingFilter = &ff
	lf := f.Build()
	if n.sf != nil {
		// the application's own filter object: its state is changed in place and
		// the SAME pointer is handed in again (it has no Equals, so the library
		// cannot know whether it changed and has to reconcile)
		n.sf.cur = lf
		lf = n.sf
	}
	if n.FPub != nil {
		err = n.FPub.Refilter(lf)
	} else {
		err = n.FSub.Refilter(lf)
	}
	if err == nil {
		pf := n.Filter
		n.PrevFilter = &pf
		n.Filter = f
		n.HasFilter = true
	}
	detsim.Note("refilter %s -> %s err=%v", n.Name(), f.String(), err)
	return err
}

// StatefulFilter is a user-defined filter: a pointer type with mutable state
// and no Equals method.
type StatefulFilter struct{ cur filter.Filter }

func (s *StatefulFilter) Accept(o metav1.Object) bool { return s.cur.Accept(o) }

// NewStateful / Set: for scenarios that drive such a filter themselves.
func NewStateful(f filter.Filter) *StatefulFilter { return &StatefulFilter{cur: f} }
func (s *StatefulFilter) Set(f filter.Filter)      { s.cur = f }

// FlipRoot changes what the controller-level filter accepts (RootSwitch): the
// next relist is what brings the cache in line.
func (h *H) FlipRoot(f FilterSpec) {
	h.rootSF.cur = f.Build()
	h.RootFilter = f
	h.RootPred = f.Pred()
	detsim.Count("probe:controller-filter-changed-its-mind")
}

// filterFor: the library filter a filtered node is created with - a fresh
// value built from the term, or (NextStateful) the node's own stateful object.
func (h *H) filterFor(n *NodeRT, f FilterSpec) filter.Filter {
	if h.NextStateful {
		h.NextStateful = false
		n.sf = &StatefulFilter{cur: f.Build()}
		detsim.Count("probe:stateful-user-filter")
		return n.sf
	}
	return f.Build()
}

// ListIDs reads a cache; ok=false when the component is not running.
func ListIDs(c kcache.CacheReader) ([]string, []Spec, bool) {
	objs, err := c.List()
	if err != nil {
		return nil, nil, false
	}
	ids, specs := IDs(objs), specsOf(objs)
	Scribble(objs)
	return ids, specs, true
}

// Scribble destroys a slice the library returned, after the harness has taken
// what it needs from it: a returned slice belongs to its caller, so this must
// never show anywhere else (a memoised or shared backing array would).  Every
// harness read does it - compacting or clearing a result in place is what
// ordinary consumers do.
func Scribble(objs []metav1.Object) {
	// ... and appending to one's own slice is just as legal: whatever lies
	// behind its length must not be somebody else's data
	_ = append(objs, scribbleMarker)
	for i := range objs {
		objs[i] = nil
	}
}

var scribbleMarker = BuildMeta("pod", Spec{NS: "scribble", Name: "marker-appended-by-a-consumer", RV: "1"})

// ExpectRoot returns what the controller cache must hold when it equals the server.
func (h *H) ExpectRoot() []Spec { return FilterSpecs(h.Srv.Objects(), h.RootPred) }

// CheckRootEqualsServer compares the controller cache with the server content.
func (h *H) CheckRootEqualsServer(class string) {
	got, _, ok := ListIDs(h.Ctrl.Cache())
	if !ok && h.RootDown != nil && h.RootDown() {
		return
	}
	if !ok {
		detsim.Fail(class, "controller cache is not running (Error=%v)", h.Ctrl.Error())
	}
	want := SpecIDs(h.ExpectRoot())
	if !SameIDs(got, want) {
		detsim.Fail(class, "controller cache differs from the API server at quiescence\n  cache : %v\n  server: %v\n%s", got, want, h.Srv.Summary())
	}
}

func (h *H) alive(n *NodeRT) bool {
	d := h.DoneOf(n)
	return d != nil && !detsim.IsClosed(d)
}

// CheckTree verifies, at a quiescent point, that every live filtered node
// equals its filter applied to its parent's cache, every plain node equals its
// parent, and every mirror equals the cache it replays.
func (h *H) CheckTree(prefix string) {
	h.SeedMirrors()
	for _, n := range h.Nodes {
		n.CheckKeptInit()
	}
	defer func() {
		for _, n := range h.Nodes {
			n.CheckKeptInit()
		}
	}()
	for _, n := range h.Nodes {
		if n.Mon != nil || !h.alive(n) {
			continue
		}
		c := h.CacheOf(n)
		got, _, ok := ListIDs(c)
		if !ok {
			continue
		}
		ready := detsim.IsClosed(h.ReadyOf(n))
		_, pspecs, pok := ListIDs(h.CacheOf(n.Parent))
		if pok && ready && !(h.Overflowed() && n.Filtered()) {
			var want []string
			if n.Filtered() {
				want = SpecIDs(FilterSpecs(pspecs, n.Filter.Pred()))
			} else {
				want = SpecIDs(pspecs)
			}
			if !SameIDs(got, want) {
				detsim.Fail(prefix+"node-cache-diverged", "%s (filter %s) cache differs from its filter applied to the parent cache at quiescence\n  node  : %v\n  expect: %v\n  parent: %v",
					n.Name(), n.Filter.String(), got, want, SpecIDs(pspecs))
			}
		}
		if n.Mirror != nil && !h.Overflowed() && !n.Lost() && !h.upstreamFull(n) && (n.Reader == "eager" || n.Reader == "slow") && len(n.Sub.Events()) == 0 {
			m := SpecIDs(n.Mirror.List())
			if !SameIDs(m, got) {
				detsim.Fail(prefix+"mirror-diverged", "%s: replaying its events does not give its cache\n  mirror: %v\n  cache : %v\n  events: %s", n.Name(), m, got, sigs(n.Events))
			}
		}
	}
}

// SeedMirrors must be called at a quiescent point (after Settle, under
// HoldTime): no event is in flight anywhere, so the cache content read now is
// exactly the state the rest of the subscriber's event stream starts from.
// From here on the mirror replays strictly, with no overlap tolerance.  (A
// seed taken at an arbitrary instant cannot be aligned with the stream: with a
// slow list the cache may even move to an older object version, 11.4 item 17.)
func (h *H) SeedMirrors() {
	for _, n := range h.Nodes {
		if n.Sub == nil || n.Mon != nil || n.Mirror != nil || n.mirrorDead || (n.Reader != "eager" && n.Reader != "slow") {
			continue
		}
		if h.Overflowed() || n.Lost() || h.upstreamFull(n) || len(n.Sub.Events()) != 0 {
			continue
		}
		if !detsim.IsClosed(n.Sub.Ready()) || detsim.IsClosed(n.Sub.Done()) {
			continue
		}
		if list, err := n.Sub.Cache().List(); err == nil {
			specs := specsOf(list)
			Scribble(list)
			n.Mirror = NewMirror(n.Name(), specs)
			n.Mirror.Strict = true
			n.SeedStep = detsim.Steps()
		}
	}
}

// upstreamFull: some subscription between n and the root had a full buffer.
func (h *H) upstreamFull(n *NodeRT) bool {
	for p := n.Parent; p != nil; p = p.Parent {
		if p.Lost() || p.FeedFull {
			return true
		}
	}
	return false
}

func sigs(evs []RecEvent) string {
	var s []string
	for _, e := range evs {
		s = append(s, e.Sig())
	}
	return strings.Join(s, "; ")
}

func Sigs(evs []RecEvent) []string {
	var s []string
	for _, e := range evs {
		s = append(s, e.Sig())
	}
	return s
}

// Summary describes the client-side history of the server for reports.
func (s *Server) Summary() string {
	var b strings.Builder
	fmt.Fprintf(&b, "  server rv=%d objects=%v\n", s.rv, SpecIDs(s.Objects()))
	for _, l := range s.Lists {
		fmt.Fprintf(&b, "  list#%d start=%v snap=%v end=%v rv=%d %s done=%v\n", l.N, l.Start, l.Snap, l.End, l.SnapRV, l.Outcome, l.Done)
	}
	for _, w := range s.Watches {
		fmt.Fprintf(&b, "  watch#%d at=%v rv=%s %s sent=%v\n", w.N, w.At, w.RV, w.Outcome, w.Sent)
	}
	return b.String()
}

// LiveLibGoroutines returns the goroutines that are still alive and were not
// created by the harness itself (names are "<enclosing func>><call>").
func LiveLibGoroutines(harnessPrefixes ...string) []detsim.GInfo {
	var out []detsim.GInfo
	for _, g := range detsim.Goroutines() {
		if g.State == "exited" || g.Name == "root" {
			continue
		}
		skip := false
		for _, p := range harnessPrefixes {
			if strings.HasPrefix(g.Name, p) || strings.HasPrefix(g.Site, p) {
				skip = true
			}
		}
		if !skip {
			out = append(out, g)
		}
	}
	return out
}
