package world

import (
	"context"
	"errors"
	"fmt"
	"net/url"
	"sort"
	"strconv"
	"time"

	"detsim"

	"github.com/boz/kcache"
	pkgerrors "github.com/pkg/errors"
	apierrors "k8s.io/apimachinery/pkg/api/errors"
	metav1 "k8s.io/apimachinery/pkg/apis/meta/v1"
	"k8s.io/apimachinery/pkg/apis/meta/v1/unstructured"
	"k8s.io/apimachinery/pkg/runtime"
	"k8s.io/apimachinery/pkg/runtime/schema"
	"k8s.io/apimachinery/pkg/watch"
)

// Fault is one injectable fault kind: it can fire at most Budget times, each
// time a decision point of that kind is reached the simulator draws
// Choose(kind, Denom) and the fault fires iff the draw is Denom-1 (so the
// default replay policy, 0, never injects a fault).
type Fault struct {
	Budget int `json:"budget"`
	Denom  int `json:"denom"`
}

type Faults struct {
	Plan     map[string]*Fault
	Fired    map[string]int
	stopped  bool
	released chan struct{} // closed by Stop: calls hanging because of an injected fault time out
	// ListScript forces the outcome of the k-th list call (1-based): "" = normal
	ListScript map[int]string
}

func NewFaults(plan map[string]Fault) *Faults {
	f := &Faults{Plan: map[string]*Fault{}, Fired: map[string]int{}, ListScript: map[int]string{}, released: make(chan struct{})}
	for k, v := range plan {
		v := v
		f.Plan[k] = &v
	}
	return f
}

// Roll decides whether the fault kind fires now.
func (f *Faults) Roll(kind string) bool {
	if f == nil || f.stopped {
		return false
	}
	p := f.Plan[kind]
	if p == nil || p.Budget <= 0 {
		return false
	}
	d := p.Denom
	if d < 2 {
		d = 2
	}
	if detsim.Choose("fault:"+kind, d) != d-1 {
		return false
	}
	p.Budget--
	f.Fired[kind]++
	detsim.Count("fault:" + kind)
	detsim.Note("FAULT %s", kind)
	return true
}

// Stop disables all further fault injection.
func (f *Faults) Stop() {
	if f != nil && !f.stopped {
		f.stopped = true
		close(f.released)
	}
}

func (f *Faults) Remaining() int {
	if f == nil || f.stopped {
		return 0
	}
	n := 0
	for _, p := range f.Plan {
		if p.Budget > 0 {
			n += p.Budget
		}
	}
	return n
}

type Entry struct {
	RV   int
	Type watch.EventType
	Obj  Spec
}

type ListCall struct {
	N        int
	Start    time.Duration
	Snap     time.Duration
	End      time.Duration
	SnapRV   int
	Outcome  string
	Snapshot []Spec
	Done     bool
}

type WatchCall struct {
	N       int
	At      time.Duration
	RV      string
	Outcome string
	Sent    []int // resource versions of frames delivered on this session
	Floor   int   // highest version any subscriber had already received when the call was made
	Ended   bool
}

// Server is the simulated API server for one resource kind, plus the client
// through which kcache talks to it.
type Server struct {
	Kind  string
	Typed bool // List returns the concrete typed list
	rv    int
	objs  map[string]Spec
	log   []Entry
	chg   chan struct{}
	compact int

	F *Faults

	ListLatency   [2]time.Duration // before / after the snapshot (upper bounds when Vary is set)
	VaryLatency   bool
	Lists         []*ListCall
	Watches       []*WatchCall
	InflightLists int
	MaxInflight   int
	InflightWatch int
	HoldFirstList chan struct{} // if non-nil the first list waits for this channel (C08)
	uids          int
	DeafHanging   int // list calls in flight that ignore their context
	Unstructured  bool // objects and lists in the dynamic client's representation (*unstructured.Unstructured / UnstructuredList)
	EmptyListRV   bool // lists carry no resourceVersion of their own
	StrayContinue bool // complete list replies carry a continue token nobody asked for
	errFlavor     int
	stopDrawn, oneShotStop bool
	// HeadFrame: every watch stream opens with a non-object frame (a server or
	// proxy announcing itself): "bookmark" | "status" | "unknown-type"
	HeadFrame string
	Reuse         bool // one live object per key, mutated in place and re-sent by pointer
	live          map[string]runtime.Object
	FailFirstKind string // how the held first list fails (a list-script kind; "" = plain error)
	FailFirstList bool

	// Foreign: a foreign-typed object (other kind) is mixed into lists/events
	Foreign []Spec

	// WatchMode: "" normal | "error" every connect fails | "hang" every connect
	// blocks until its context is cancelled | "silent" connects, never sends
	WatchMode string
	OnWatch   func(*WatchCall)
}

func NewServer(kind string) *Server {
	return &Server{Kind: kind, rv: 10, objs: map[string]Spec{}, chg: make(chan struct{}), F: NewFaults(nil)}
}

func (s *Server) RV() int { return s.rv }

// SetBaseRV moves the server's version counter (before anything is written):
// histories right below a power of ten (the next version has one more digit)
// or far up the 64-bit range.
func (s *Server) SetBaseRV(n int) {
	if n > 0 && len(s.log) == 0 {
		s.rv = n
	}
}

// ZeroRV: a fresh store whose version counter has not moved yet (fixtures loaded
// into it carry version "0").
func (s *Server) ZeroRV() {
	if len(s.log) == 0 {
		s.rv = 0
	}
}

// BaseRVs is the menu scenarios draw from (0 = the default, 10).
var BaseRVs = []int{0, 0, 0, 0, 5, 85, 95, 97, 985, 9990, 99990, 1<<31 - 20, 1<<32 - 20, 1<<53 - 20}

func (s *Server) bump() {
	close(s.chg)
	s.chg = make(chan struct{})
}

func (s *Server) appendLog(t watch.EventType, o Spec) {
	s.log = append(s.log, Entry{RV: s.rv, Type: t, Obj: o.Clone()})
	s.bump()
}

// Apply creates or updates an object; returns the new version.
func (s *Server) Apply(o Spec) Spec {
	s.rv++
	o = o.Clone()
	o.RV = strconv.Itoa(s.rv)
	prev, existed := s.objs[o.Key()]
	if o.UID == "" {
		// one uid per incarnation: kept across updates, new after delete + create
		if existed {
			o.UID = prev.UID
		} else {
			s.uids++
			o.UID = "uid-" + strconv.Itoa(s.uids)
		}
	}
	s.objs[o.Key()] = o
	if existed {
		s.appendLog(watch.Modified, o)
	} else {
		s.appendLog(watch.Added, o)
	}
	detsim.Note("server[%s] apply %s", s.Kind, o.ID())
	return o
}

// ApplyFixture loads an object the way test fixtures and restored snapshots
// look: no uid, and the same resourceVersion as everything else loaded with it
// (the version counter does not move).
func (s *Server) ApplyFixture(o Spec) Spec {
	// (with a fresh store that one version is "0", as fixtures without a version
	// of their own are commonly numbered)
	o = o.Clone()
	o.RV = strconv.Itoa(s.rv)
	o.UID = ""
	_, existed := s.objs[o.Key()]
	s.objs[o.Key()] = o
	if existed {
		s.appendLog(watch.Modified, o)
	} else {
		s.appendLog(watch.Added, o)
	}
	detsim.Note("server[%s] fixture %s", s.Kind, o.ID())
	return o
}

func (s *Server) Delete(key string) bool {
	o, ok := s.objs[key]
	if !ok {
		return false
	}
	s.rv++
	delete(s.objs, key)
	o = o.Clone()
	o.RV = strconv.Itoa(s.rv)
	s.appendLog(watch.Deleted, o)
	detsim.Note("server[%s] delete %s", s.Kind, o.ID())
	return true
}

func (s *Server) Get(key string) (Spec, bool) {
	o, ok := s.objs[key]
	return o, ok
}

// Objects returns the current content sorted by key.
func (s *Server) Objects() []Spec {
	out := make([]Spec, 0, len(s.objs))
	for _, o := range s.objs {
		out = append(out, o)
	}
	sort.Slice(out, func(i, j int) bool { return out[i].Key() < out[j].Key() })
	return out
}

// Compact makes watch replay from versions <= rv impossible (410 Gone).
func (s *Server) Compact() { s.compact = s.rv }

// History returns all log entries.
func (s *Server) History() []Entry { return s.log }

func (s *Server) latency(max time.Duration, label string) time.Duration {
	if max <= 0 {
		return 0
	}
	if !s.VaryLatency {
		return max
	}
	// 0, max/4, max/2, max
	switch detsim.Choose("lat:"+label, 4) {
	case 0:
		return max
	case 1:
		return max / 2
	case 2:
		return max / 4
	}
	return 0
}

var ErrInjectedList = errors.New("injected: list failed")

// ListErrorOf is the error value a scripted list failure of that kind returns;
// ListErrorText is what Error() of a controller stopped by it has to mention.
func ListErrorOf(kind string) error {
	switch kind {
	case "error-timeout":
		return &url.Error{Op: "Get", URL: "https://apiserver/injected-list", Err: context.DeadlineExceeded}
	case "error-canceled":
		return &url.Error{Op: "Get", URL: "https://apiserver/injected-list", Err: context.Canceled}
	case "error-canceled-bare":
		return context.Canceled
	case "error-deadline-bare":
		return context.DeadlineExceeded
	case "error-nilcause", "error-nilcause-with-list":
		// an error type with an OPTIONAL cause (juju-style): Cause() returns nil
		return causeless{"injected: list failed (an error whose Cause() is nil)"}
	case "error-server-timeout":
		// API status errors as a typed client returns them for a failed list: the
		// server's own timeout (500, reason ServerTimeout, "retry later") ...
		return apierrors.NewServerTimeout(schema.GroupResource{Resource: "pods"}, "list", 2)
	case "error-gateway-timeout":
		// ... a 504 from something in between ...
		return apierrors.NewTimeoutError("injected: request did not complete within the allotted timeout", 1)
	case "error-too-many-requests":
		return apierrors.NewTooManyRequests("injected: slow down", 5)
	case "error-forbidden":
		return apierrors.NewForbidden(schema.GroupResource{Resource: "pods"}, "", errors.New("injected: forbidden"))
	case "error-aggregate":
		// an aggregate (slice-typed, hence uncomparable) error, as
		// utilerrors.NewAggregate returns it
		return multiErr{ErrInjectedList, errors.New("injected: second cause")}
	case "error-notrunning":
		// the library's own sentinel coming back from the client (a ListClient
		// layered on another kcache controller that has been closed)
		return kcache.ErrNotRunning
	case "error-notrunning-wrapped":
		return pkgerrors.WithStack(kcache.ErrNotRunning)
	}
	return ErrInjectedList
}

func ListErrorText(kind string) string { return ListErrorOf(kind).Error() }
var ErrInjectedWatch = errors.New("injected: watch connect refused")

// multiErr, fieldErrs: error types whose values cannot be compared with == (a
// slice, a map) - comparing two of them as interfaces panics
type multiErr []error

func (m multiErr) Error() string {
	s := "["
	for i, e := range m {
		if i > 0 {
			s += ", "
		}
		s += e.Error()
	}
	return s + "]"
}

type fieldErrs map[string]string

func (f fieldErrs) Error() string { return fmt.Sprintf("injected: invalid fields (%d)", len(f)) }

// connectError: the value a refused Watch call returns - one flavour per
// server, so that repeated failures repeat the type
func (s *Server) connectError() error {
	if s.errFlavor == 0 {
		s.errFlavor = 1 + detsim.Choose("connect-error-flavour", 3)
	}
	switch s.errFlavor {
	case 2:
		return multiErr{ErrInjectedWatch}
	case 3:
		return fieldErrs{"resourceVersion": ErrInjectedWatch.Error()}
	}
	return ErrInjectedWatch
}

func sleepCtx(ctx context.Context, d time.Duration) bool {
	if d <= 0 {
		return ctx.Err() == nil
	}
	t := time.NewTimer(d)
	defer t.Stop()
	select {
	case <-t.C:
		return true
	case <-ctx.Done():
		return false
	}
}

type noItemsList struct {
	metav1.TypeMeta
	metav1.ListMeta
}

func (l *noItemsList) DeepCopyObject() runtime.Object { c := *l; return &c }

// List implements client.ListClient.
func (s *Server) List(ctx context.Context, opts metav1.ListOptions) (runtime.Object, error) {
	call := &ListCall{N: len(s.Lists) + 1, Start: detsim.Elapsed(), Outcome: "ok"}
	s.Lists = append(s.Lists, call)
	s.InflightLists++
	if s.InflightLists > s.MaxInflight {
		s.MaxInflight = s.InflightLists
	}
	detsim.Note("list#%d start", call.N)
	defer func() {
		s.InflightLists--
		call.End = detsim.Elapsed()
		call.Done = true
		detsim.Note("list#%d end %s", call.N, call.Outcome)
	}()

	if call.N == 1 && s.HoldFirstList != nil {
		select {
		case <-s.HoldFirstList:
		case <-ctx.Done():
			call.Outcome = "cancelled"
			return nil, ctx.Err()
		}
	}

	script := s.F.ListScript[call.N]
	if call.N == 1 && s.HoldFirstList != nil && s.FailFirstList {
		// the held first list fails, in whichever way was chosen at release
		script = s.FailFirstKind
		if script == "" {
			script = "error"
		}
	}
	if script == "" && s.F.Roll("list-hang") {
		script = "hang"
	}
	if script == "hang-deaf" {
		// a client that does not honour its context: the call returns only when
		// the injected partition ends (Faults.Stop), whatever happens to ctx
		call.Outcome = "hang-deaf"
		s.DeafHanging++
		<-s.F.released
		s.DeafHanging--
		call.Outcome = "ok"
	}
	if script == "hang" {
		call.Outcome = "hang"
		select {
		case <-ctx.Done():
			return nil, ctx.Err()
		case <-s.F.released:
			// the injected partition heals: the call proceeds normally
			call.Outcome = "ok"
		}
	}
	if !sleepCtx(ctx, s.latency(s.ListLatency[0], "pre")) {
		call.Outcome = "cancelled"
		return nil, ctx.Err()
	}
	// the snapshot
	call.Snap = detsim.Elapsed()
	call.SnapRV = s.rv
	snap := s.Objects()
	call.Snapshot = snap
	rv := strconv.Itoa(s.rv)
	if s.EmptyListRV {
		// a client that leaves the list's own metadata.resourceVersion unset
		// (client-go's fake clientset does): the content is the same
		rv = ""
	}
	detsim.Note("list#%d snapshot rv=%s n=%d", call.N, rv, len(snap))
	if !sleepCtx(ctx, s.latency(s.ListLatency[1], "post")) {
		call.Outcome = "cancelled"
		return nil, ctx.Err()
	}
	if script != "" && script != "hang" {
		detsim.Count("fault:list-" + script) // scripted outcome of this call (C14/C13)
	}
	if script == "" && s.F.Roll("list-error") {
		script = "error"
	}
	switch script {
	case "error":
		call.Outcome = "error"
		return nil, ErrInjectedList
	case "error-typed-nil":
		// a nil *List inside the interface, next to the error
		call.Outcome = "error"
		return (*metav1.List)(nil), ErrInjectedList
	case "error-with-list":
		// what client-go's typed clients do on failure: a non-nil, well-typed,
		// empty list object together with the error
		call.Outcome = "error"
		return BuildTypedList(s.Kind, "", nil), ErrInjectedList
	case "error-with-full-list":
		// a truncated / partially decoded response: content and an error
		call.Outcome = "error"
		return BuildList(s.Kind, rv, snap), ErrInjectedList
	case "error-nilcause-with-list":
		call.Outcome = "error"
		return BuildTypedList(s.Kind, "", nil), ListErrorOf(script)
	case "error-timeout", "error-canceled", "error-canceled-bare", "error-deadline-bare", "error-notrunning", "error-notrunning-wrapped", "error-nilcause", "error-aggregate", "error-server-timeout", "error-gateway-timeout", "error-too-many-requests", "error-forbidden":
		// a failed list is fatal whatever the error value looks like - also when
		// it is, or wraps, a context error that is not the caller's own cancellation
		call.Outcome = "error"
		return nil, ListErrorOf(script)
	case "nonlist":
		call.Outcome = "nonlist"
		return Build(s.Kind, Spec{NS: "x", Name: "notalist", RV: rv}), nil
	case "nonobjects":
		call.Outcome = "nonobjects"
		return &metav1.List{ListMeta: metav1.ListMeta{ResourceVersion: rv}, Items: []runtime.RawExtension{{Object: &runtime.Unknown{}}}}, nil
	case "noitems":
		call.Outcome = "noitems"
		return &noItemsList{ListMeta: metav1.ListMeta{ResourceVersion: rv}}, nil
	case "unstructured-object":
		// a dynamic-style client: a single (non-list) object decoded as *unstructured.Unstructured
		call.Outcome = "unstructured-object"
		return &unstructured.Unstructured{Object: map[string]interface{}{"apiVersion": "v1", "kind": "Status", "metadata": map[string]interface{}{"resourceVersion": rv}, "status": "Failure", "message": "injected: a status document instead of a list"}}, nil
	case "status-object":
		// what rest.Result.Get() yields when the server answers a list request
		// with a Status: an object with ListMeta that is not a list
		call.Outcome = "status-object"
		return &metav1.Status{Status: "Failure", Reason: metav1.StatusReasonInternalError, Code: 500, Message: "injected: status instead of a list"}, nil
	case "nil":
		call.Outcome = "nil"
		return nil, nil
	}
	if len(s.Foreign) > 0 {
		all := append(append([]Spec(nil), snap...), s.Foreign...)
		return BuildList(s.Kind, rv, all), nil
	}
	if s.Typed {
		return BuildTypedList(s.Kind, rv, snap), nil
	}
	if opts.Limit > 0 || opts.Continue != "" {
		// paging, as the API server does it: at most Limit items and a continue
		// token; a client that asks for pages has to follow them
		off := 0
		if opts.Continue != "" {
			fmt.Sscanf(opts.Continue, "injected-continue-%d", &off)
		}
		if off > len(snap) {
			off = len(snap)
		}
		page := snap[off:]
		l := &metav1.List{ListMeta: metav1.ListMeta{ResourceVersion: rv}}
		if opts.Limit > 0 && int64(len(page)) > opts.Limit {
			page = page[:opts.Limit]
			l.Continue = fmt.Sprintf("injected-continue-%d", off+int(opts.Limit))
			rem := int64(len(snap) - off - int(opts.Limit))
			l.RemainingItemCount = &rem
		}
		for _, o := range page {
			l.Items = append(l.Items, runtime.RawExtension{Object: s.object(o, false)})
		}
		detsim.Count("probe:list-paged")
		return l, nil
	}
	if s.Unstructured {
		// what the dynamic client returns: an UnstructuredList of Unstructured items
		l := &unstructured.UnstructuredList{Object: map[string]interface{}{"apiVersion": "v1", "kind": "List"}}
		l.SetResourceVersion(rv)
		for _, o := range snap {
			l.Items = append(l.Items, *ToUnstructured(Build(s.Kind, o)))
		}
		return l, nil
	}
	if s.Reuse {
		l := &metav1.List{ListMeta: metav1.ListMeta{ResourceVersion: rv}}
		for _, o := range snap {
			l.Items = append(l.Items, runtime.RawExtension{Object: s.object(o, false)})
		}
		return l, nil
	}
	l := BuildList(s.Kind, rv, snap)
	if s.StrayContinue {
		// a complete reply that carries a continue token nobody asked for (a
		// paginating proxy in front of the server that had to merge pages itself)
		detsim.Count("probe:list-with-a-stray-continue-token")
		l.(*metav1.List).Continue = "proxy-merged-pages"
	}
	return l, nil
}

// object builds the API object of a frame or list element.  With Reuse the
// server behaves like an in-memory store that keeps ONE live object per key,
// changes it in place and hands out the same pointer again and again (only
// used in runs where every write is drained before the next one, so that no
// consumer still has an older state of the object in flight).
func (s *Server) object(o Spec, deleted bool) runtime.Object {
	if s.Unstructured {
		return ToUnstructured(Build(s.Kind, o))
	}
	if !s.Reuse {
		return Build(s.Kind, o)
	}
	if s.live == nil {
		s.live = map[string]runtime.Object{}
	}
	cur, ok := s.live[o.Key()]
	if !ok {
		cur = Build(s.Kind, o)
		s.live[o.Key()] = cur
	} else {
		m := cur.(metav1.Object)
		m.SetResourceVersion(o.RV)
		m.SetLabels(copyMap(o.Labels))
		detsim.Count("probe:server-object-mutated-in-place")
	}
	if deleted {
		delete(s.live, o.Key())
	}
	return cur
}

type conn struct {
	s      *Server
	call   *WatchCall
	result chan watch.Event
	stop   chan struct{}
	stopped bool
	next   int
}

func (c *conn) ResultChan() <-chan watch.Event { return c.result }

func (c *conn) Stop() {
	if !c.stopped {
		c.stopped = true
		close(c.stop)
		return
	}
	// watch.Interface does not promise that Stop may be called twice, and some
	// streams (client-go's RetryWatcher) do not allow it
	c.s.stopFlavour()
	if c.s.oneShotStop {
		detsim.Count("probe:one-shot-stream-stopped-again")
		close(c.stop) // "close of closed channel", as such a stream does
	}
}

// stopFlavour: are this server's streams of the kind whose Stop() works once?
func (s *Server) stopFlavour() {
	if !s.stopDrawn {
		s.stopDrawn = true
		s.oneShotStop = detsim.Choose("one-shot-stop", 2) == 1
	}
}

// Watch implements client.WatchClient.
func (s *Server) Watch(ctx context.Context, opts metav1.ListOptions) (watch.Interface, error) {
	call := &WatchCall{N: len(s.Watches) + 1, At: detsim.Elapsed(), RV: opts.ResourceVersion, Outcome: "open"}
	s.Watches = append(s.Watches, call)
	if s.OnWatch != nil {
		s.OnWatch(call)
	}
	detsim.Note("watch#%d connect rv=%s", call.N, opts.ResourceVersion)
	switch s.WatchMode {
	case "error":
		call.Outcome = "connect-error(dead)"
		call.Ended = true
		return nil, ErrInjectedWatch
	case "hang":
		call.Outcome = "connect-hang(dead)"
		s.InflightWatch++
		<-ctx.Done()
		s.InflightWatch--
		call.Ended = true
		return nil, ctx.Err()
	}
	if s.F.Roll("watch-connect-hang") {
		call.Outcome = "connect-hang"
		s.InflightWatch++
		defer func() { s.InflightWatch-- }()
		call.Ended = true
		select {
		case <-ctx.Done():
			return nil, ctx.Err()
		case <-s.F.released:
			// the injected partition ends: the connect attempt times out
			return nil, ErrInjectedWatch
		}
	}
	if d := s.F.Plan["watch-connect-delay"]; d != nil && s.F.Roll("watch-connect-delay") {
		if !sleepCtx(ctx, 300*time.Millisecond) {
			call.Outcome = "cancelled"
			call.Ended = true
			return nil, ctx.Err()
		}
	}
	if s.F.Roll("watch-connect-error") {
		call.Outcome = "connect-error"
		call.Ended = true
		if detsim.Choose("connect-error-typed-nil", 2) == 1 {
			// a nil *watcher* inside the interface, next to the error: what
			// `w, err := newWatcher(...); return w, err` hands back on failure
			return (*conn)(nil), s.connectError()
		}
		return nil, s.connectError()
	}
	if s.F.Roll("watch-connect-timeout") {
		// what a client with a request timeout reports: a deadline error that is
		// NOT the cancellation of the caller's own context
		call.Outcome = "connect-timeout"
		call.Ended = true
		return nil, &url.Error{Op: "Get", URL: "https://apiserver/watch", Err: context.DeadlineExceeded}
	}
	if s.F.Roll("watch-connect-api-error") {
		// the API server answers the watch request with an error status: never
		// fatal, whatever the status says
		call.Outcome = "connect-api-error"
		call.Ended = true
		gr := schema.GroupResource{Resource: s.Kind + "s"}
		switch detsim.Choose("api-error-kind", 9) {
		case 7:
			// "the server does not allow this method on the requested resource"
			return nil, apierrors.NewMethodNotSupported(gr, "watch")
		case 8:
			// any other status a server or a proxy in front of it can answer with
			code := []int{402, 406, 408, 409, 413, 415, 422, 501, 502, 504, 507}[detsim.Choose("api-error-code", 11)]
			return nil, apierrors.NewGenericServerResponse(code, "get", gr, "", "injected", 0, true)
		case 0:
			return nil, apierrors.NewForbidden(gr, "", errors.New("injected: forbidden"))
		case 1:
			return nil, apierrors.NewUnauthorized("injected: unauthorized")
		case 2:
			return nil, apierrors.NewInternalError(errors.New("injected: internal error"))
		case 3:
			// (the Retry-After hint is the server's wish, not the library's contract:
			// the reconnect delay stays what it is)
			return nil, apierrors.NewTooManyRequests("injected: slow down", []int{1, 7, 120}[detsim.Choose("retry-after", 3)])
		case 4:
			if detsim.Choose("unavailable-kind", 2) == 1 {
				return nil, apierrors.NewServerTimeout(schema.GroupResource{Resource: "pods"}, "watch", 30)
			}
			return nil, apierrors.NewServiceUnavailable("injected: unavailable")
		case 5:
			return nil, apierrors.NewNotFound(gr, "")
		default:
			return nil, apierrors.NewBadRequest("injected: bad request")
		}
	}
	if s.F.Roll("watch-connect-canceled-error") {
		call.Outcome = "connect-canceled-error"
		call.Ended = true
		return nil, fmt.Errorf("watch aborted by a proxy: %w", context.Canceled)
	}
	from, err := strconv.Atoi(opts.ResourceVersion)
	if opts.ResourceVersion == "" {
		// as the API server does it: no version = start at the current state
		from, err = s.rv, nil
	}
	if err != nil {
		call.Outcome = "bad-version"
		call.Ended = true
		return nil, fmt.Errorf("watch: invalid resourceVersion %q", opts.ResourceVersion)
	}
	c := &conn{s: s, call: call, result: make(chan watch.Event), stop: make(chan struct{})}
	gone := from < s.compact
	if !gone && from < s.rv && s.F.Roll("watch-connect-expired") {
		// the server refuses this (behind) resume version with "410 Gone" once,
		// as an API error of the Watch call itself; the next attempt is served
		call.Outcome = "connect-expired"
		call.Ended = true
		return nil, apierrors.NewResourceExpired("too old resource version (injected)")
	}
	if gone && detsim.Choose("gone-how", 2) == 1 {
		// compaction reported by the call instead of by a first frame
		call.Outcome = "gone-410"
		call.Ended = true
		detsim.Count("fault:watch-gone-410-call")
		return nil, apierrors.NewResourceExpired("too old resource version")
	}
	for c.next < len(s.log) && s.log[c.next].RV <= from {
		c.next++
	}
	go c.pump(ctx, gone)
	return c, nil
}

func (c *conn) send(ctx context.Context, ev watch.Event) bool {
	select {
	case c.result <- ev:
		return true
	case <-c.stop:
		return false
	case <-ctx.Done():
		return false
	}
}

func (c *conn) frame(e Entry) watch.Event {
	return watch.Event{Type: e.Type, Object: c.s.object(e.Obj, e.Type == watch.Deleted)}
}

func (c *conn) pump(ctx context.Context, gone bool) {
	s := c.s
	defer func() {
		c.call.Ended = true
		if c.call.Outcome == "open" {
			c.call.Outcome = "ended"
		}
		close(c.result)
		detsim.Note("watch#%d stream end (%s)", c.call.N, c.call.Outcome)
	}()
	if gone {
		c.call.Outcome = "gone-410"
		detsim.Count("fault:watch-gone-410")
		c.send(ctx, watch.Event{Type: watch.Error, Object: &metav1.Status{Status: "Failure", Reason: metav1.StatusReasonExpired, Code: 410, Message: "too old resource version"}})
		return
	}
	switch s.HeadFrame {
	case "bookmark":
		detsim.Count("fault:watch-head-frame")
		rv := c.call.RV
		if !c.send(ctx, watch.Event{Type: watch.Bookmark, Object: Build(s.Kind, Spec{RV: rv})}) {
			return
		}
	case "status":
		detsim.Count("fault:watch-head-frame")
		if !c.send(ctx, watch.Event{Type: watch.Bookmark, Object: &metav1.Status{Status: "Success", Message: "stream open"}}) {
			return
		}
	case "unknown-type":
		detsim.Count("fault:watch-head-frame")
		if !c.send(ctx, watch.Event{Type: watch.EventType("HELLO"), Object: Build(s.Kind, Spec{NS: "", Name: "hello", RV: c.call.RV})}) {
			return
		}
	}
	delivered := 0
	for {
		if s.WatchMode == "silent" {
			select {
			case <-c.stop:
			case <-ctx.Done():
			}
			return
		}
		if c.next < len(s.log) {
			e := s.log[c.next]
			switch {
			case s.F.Roll("watch-close-mid"):
				c.call.Outcome = "closed-by-server(unsent events)"
				return
			case s.F.Roll("watch-status-frame"):
				if !c.send(ctx, watch.Event{Type: watch.Modified, Object: &metav1.Status{Status: "Success", Message: "injected status frame"}}) {
					return
				}
				continue
			case s.F.Roll("watch-expired-frame"):
				// an in-band "410 Expired" error frame on a stream that then goes on
				// (a confused proxy) or ends, as the API server does it
				if !c.send(ctx, watch.Event{Type: watch.Error, Object: &metav1.Status{Status: "Failure", Reason: metav1.StatusReasonExpired, Code: 410, Message: "injected: too old resource version"}}) {
					return
				}
				if detsim.Choose("expired-then", 2) == 1 {
					c.call.Outcome = "closed-by-server(after expired frame)"
					return
				}
				continue
			case s.F.Roll("watch-bookmark"):
				if !c.send(ctx, watch.Event{Type: watch.Bookmark, Object: Build(s.Kind, Spec{RV: strconv.Itoa(e.RV - 1)})}) {
					return
				}
				continue
			case s.F.Roll("watch-badobj"):
				// a frame whose object has no metadata: the session ends with an error
				if !c.send(ctx, watch.Event{Type: watch.Modified, Object: &runtime.Unknown{}}) {
					return
				}
				continue
			case s.F.Roll("watch-drop"):
				c.next++
				continue
			case len(s.Foreign) > 0 && s.F.Roll("watch-foreign"):
				fs := s.Foreign[0].Clone()
				fs.RV = strconv.Itoa(e.RV)
				if !c.send(ctx, watch.Event{Type: watch.Modified, Object: Build(s.Kind, fs)}) {
					return
				}
				continue
			}
			if !c.send(ctx, c.frame(e)) {
				return
			}
			c.call.Sent = append(c.call.Sent, e.RV)
			delivered++
			c.next++
			if s.F.Roll("watch-dup") {
				if !c.send(ctx, c.frame(e)) {
					return
				}
			}
			if c.next > 1 && s.F.Roll("watch-replay") {
				// replay an older frame
				old := s.log[detsim.Choose("replay-which", c.next)]
				if !c.send(ctx, c.frame(old)) {
					return
				}
				c.call.Sent = append(c.call.Sent, old.RV)
			}
			continue
		}
		// caught up
		if delivered > 0 && s.F.Roll("watch-close-after-burst") {
			c.call.Outcome = "closed-by-server(after burst)"
			return
		}
		if s.F.Roll("watch-close-idle") {
			c.call.Outcome = "closed-by-server(idle)"
			return
		}
		if c.next > 1 && s.F.Roll("watch-replay-idle") {
			// a quiet connection re-sends frames it had sent long ago (a proxy
			// flushing a stale buffer): up to three superseded frames while the
			// server itself does not change
			for i := 1 + detsim.Choose("replay-idle-n", 3); i > 0; i-- {
				old := s.log[detsim.Choose("replay-which", c.next)]
				if !c.send(ctx, c.frame(old)) {
					return
				}
				c.call.Sent = append(c.call.Sent, old.RV)
			}
		}
		delivered = 0
		select {
		case <-s.chg:
		case <-c.stop:
			return
		case <-ctx.Done():
			return
		}
	}
}

// ToUnstructured converts a typed API object into the dynamic client's representation.
func ToUnstructured(o runtime.Object) *unstructured.Unstructured {
	m, err := runtime.DefaultUnstructuredConverter.ToUnstructured(o)
	if err != nil {
		panic("world: ToUnstructured: " + err.Error())
	}
	return &unstructured.Unstructured{Object: m}
}

// causeless is an error with an optional cause that is not set: pkg/errors'
// Cause() follows Cause() methods until one returns nil - and then returns nil.
type causeless struct{ msg string }

func (e causeless) Error() string { return e.msg }
func (e causeless) Cause() error  { return nil }
