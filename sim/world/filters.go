package world

import (
	"strconv"
	"strings"
	"time"

	"detsim"

	"github.com/boz/kcache/filter"
	"github.com/boz/kcache/nsname"
	metav1 "k8s.io/apimachinery/pkg/apis/meta/v1"
	"k8s.io/apimachinery/pkg/labels"
)

// idBuf is the one id buffer every NSName filter of the harness is built from.
var idBuf = make([]nsname.NSName, 0, 16)

// StaticEvals: the instants at which a "gate" filter was shown the object named
// "static" (reset by the scenario that uses it).
var StaticEvals []time.Duration

// FilterSpec is a small term language for the filters used in scenarios.
type FilterSpec struct {
	Op  string       `json:"op"` // null | all | labels | nsname | not | and | or | fn
	K   string       `json:"k,omitempty"`
	V   string       `json:"v,omitempty"`
	Sub []FilterSpec `json:"sub,omitempty"`
}

func (fs FilterSpec) String() string {
	switch fs.Op {
	case "labels", "fn", "nsname", "labels2", "nsnames", "lsel", "sel", "rvparity", "slow", "flaky", "gate", "selcorner":
		return fs.Op + "(" + fs.K + "," + fs.V + ")"
	case "not", "and", "or":
		s := fs.Op + "("
		for i, c := range fs.Sub {
			if i > 0 {
				s += ","
			}
			s += c.String()
		}
		return s + ")"
	}
	if fs.Op == "" {
		return "null"
	}
	return fs.Op
}

// Build constructs a fresh library filter for the term (a new object on every
// call: equal terms built twice are "equal but separately constructed").
func (fs FilterSpec) Build() filter.Filter {
	switch fs.Op {
	case "", "null":
		return filter.Null()
	case "all":
		return filter.All()
	case "labels":
		return filter.Labels(map[string]string{fs.K: fs.V})
	case "nsname":
		// the id list is built in a buffer the caller reuses for its next filter:
		// a constructor has to copy what it keeps
		idBuf = append(idBuf[:0], nsname.New(fs.K, fs.V))
		return filter.NSName(idBuf...)
	case "flaky":
		// a filter that is not a function of the object: it answers "no" to every
		// V-th question (sampling, quotas, an allow-set somebody else updates).  No
		// reference content can be stated for it - what the cache REPORTS about its
		// own changes must still be exact.
		n, every := 0, 3
		if v, err := strconv.Atoi(fs.V); err == nil && v > 1 {
			every = v
		}
		return filter.FN(func(o metav1.Object) bool {
			n++
			return n%every != 0
		})
	case "slow":
		// a user filter that costs time: V microseconds (of the simulated clock)
		// per object, accepts everything
		us, _ := strconv.Atoi(fs.V)
		return filter.FN(func(o metav1.Object) bool {
			time.Sleep(time.Duration(us) * time.Microsecond)
			return true
		})
	case "gate":
		// a user filter that holds its caller up for V microseconds whenever it is
		// shown the object named "gate" (a lookup in some slow registry), and that
		// notes when it is shown the object named "static" - which never changes, so
		// that happens exactly when a list result is reconciled.  Accepts everything.
		us, _ := strconv.Atoi(fs.V)
		seen := ""
		return filter.FN(func(o metav1.Object) bool {
			switch o.GetName() {
			case "gate":
				// (once per version: the registry's answer is remembered)
				if rv := o.GetResourceVersion(); rv != seen {
					seen = rv
					time.Sleep(time.Duration(us) * time.Microsecond)
				}
			case "static":
				// (an unchanged cached object is shown to the filter twice within one
				// reconcile, at the same instant)
				if now := detsim.Elapsed(); len(StaticEvals) == 0 || StaticEvals[len(StaticEvals)-1] != now {
					StaticEvals = append(StaticEvals, now)
				}
			}
			return true
		})
	case "rvparity":
		// a user filter that looks at something other than labels and names:
		// its verdict flips with every update of the object
		want := fs.V == "odd"
		return filter.FN(func(o metav1.Object) bool {
			rv := o.GetResourceVersion()
			return rv != "" && (rv[len(rv)-1]-'0')%2 == 1 == want
		})
	case "labels2":
		// two label keys at once (V = "v1|v2" for app and tier); "|" alone = the empty match
		m := map[string]string{}
		if vs := strings.SplitN(fs.V, "|", 2); len(vs) == 2 {
			if vs[0] != "" {
				m["app"] = vs[0]
			}
			if vs[1] != "" {
				m["tier"] = vs[1]
			}
		}
		return filter.Labels(m)
	case "nsnames":
		// several ids: V = "ns/name,ns/name,..." (an empty name selects the namespace)
		idBuf = idBuf[:0]
		for _, id := range strings.Split(fs.V, ",") {
			if p := strings.SplitN(id, "/", 2); len(p) == 2 {
				idBuf = append(idBuf, nsname.New(p[0], p[1]))
			}
		}
		return filter.NSName(idBuf...)
	case "lsel":
		// LabelSelector: matchLabels {K: V} plus, if V contains "|", an In
		// expression over the alternatives instead
		if strings.Contains(fs.V, "|") {
			return filter.LabelSelector(&metav1.LabelSelector{MatchExpressions: []metav1.LabelSelectorRequirement{{Key: fs.K, Operator: metav1.LabelSelectorOpIn, Values: strings.Split(fs.V, "|")}}})
		}
		return filter.LabelSelector(&metav1.LabelSelector{MatchLabels: map[string]string{fs.K: fs.V}})
	case "sel":
		return filter.Selector(labels.SelectorFromSet(labels.Set{fs.K: fs.V}))
	case "selcorner":
		// selectors without requirements: two that select nothing, two that select
		// everything - equal lists of requirements, opposite meanings
		switch fs.V {
		case "lsel-nil":
			return filter.LabelSelector(nil)
		case "nothing":
			return filter.Selector(labels.Nothing())
		case "parsed-empty":
			sel, _ := labels.Parse("")
			return filter.Selector(sel)
		}
		return filter.Selector(labels.NewSelector())
	case "fn":
		k, v := fs.K, fs.V
		return filter.FN(func(o metav1.Object) bool { return o.GetLabels()[k] == v })
	case "not":
		return filter.Not(fs.Sub[0].Build())
	case "and":
		var cs []filter.Filter
		for _, c := range fs.Sub {
			cs = append(cs, c.Build())
		}
		return filter.And(cs...)
	case "or":
		var cs []filter.Filter
		for _, c := range fs.Sub {
			cs = append(cs, c.Build())
		}
		return filter.Or(cs...)
	}
	panic("world: unknown filter op " + fs.Op)
}

// Pred is the acceptance predicate over abstract specs.  It evaluates the
// library's own Accept on a freshly built object: the pure filter semantics are
// properties C17-C19, which simulation does not re-judge.
func (fs FilterSpec) Pred() func(Spec) bool {
	f := fs.noSlow().Build()
	return func(s Spec) bool { return f.Accept(BuildMeta("pod", s)) }
}

func FilterSpecs(specs []Spec, pred func(Spec) bool) []Spec {
	var out []Spec
	for _, s := range specs {
		if pred(s) {
			out = append(out, s)
		}
	}
	return out
}

// noSlow: the same term with the cost of "slow" terms removed (they accept
// everything): what the reference predicate evaluates.
func (fs FilterSpec) noSlow() FilterSpec {
	if fs.Op == "slow" || fs.Op == "gate" {
		return FilterSpec{}
	}
	if len(fs.Sub) == 0 {
		return fs
	}
	out := fs
	out.Sub = make([]FilterSpec, len(fs.Sub))
	for i, c := range fs.Sub {
		out.Sub[i] = c.noSlow()
	}
	return out
}
