package world

import (
	"fmt"

	"detsim"

	logutil "github.com/boz/go-logutil"
)

// Log is the injected logger: it records nothing unless tracing, and is a
// preemption point (an injected collaborator that may be slow).
type Log struct {
	comp  string
	Yield bool
	Hook  func(level, comp, msg string)
}

func NewLog(yield bool) *Log { return &Log{Yield: yield} }

func (l *Log) WithComponent(c string) logutil.Log {
	return &Log{comp: l.comp + "/" + c, Yield: l.Yield, Hook: l.Hook}
}

func (l *Log) out(level, format string, args []interface{}) {
	if l.Yield {
		detsim.Yield("log")
	}
	if level != "debug" {
		if l.Hook != nil {
			l.Hook(level, l.comp, fmt.Sprintf(format, args...))
		}
		detsim.Logf("LOG %s %s: %s", level, l.comp, fmt.Sprintf(format, args...))
		detsim.Count("log:" + level)
	}
}

func (l *Log) Trace(string, ...interface{}) string { return "" }
func (l *Log) Un(string)                           {}
func (l *Log) Debugf(f string, a ...interface{})   { l.out("debug", f, a) }
func (l *Log) Infof(f string, a ...interface{})    { l.out("info", f, a) }
func (l *Log) Warnf(f string, a ...interface{})    { l.out("warn", f, a) }
func (l *Log) Errorf(f string, a ...interface{})   { l.out("error", f, a) }
func (l *Log) Fatalf(f string, a ...interface{})   { l.out("fatal", f, a) }
func (l *Log) ErrWarn(err error, f string, a ...interface{}) error {
	l.out("warn", f, a)
	return err
}
func (l *Log) ErrFatal(err error, f string, a ...interface{}) error {
	l.out("fatal", f, a)
	return err
}
func (l *Log) Err(err error, f string, a ...interface{}) error {
	l.out("error", f, a)
	return err
}
