// Package world is the simulated environment of kcache: API server, clients
// with fault injection, consumers, reference models and oracles.  It is plain
// Go; kcinstr rewrites it together with the library so that both sides of every
// channel speak to the simulator.
package world

import (
	"fmt"
	"time"
	"sort"
	"strconv"
	"strings"

	appsv1 "k8s.io/api/apps/v1"
	batchv1 "k8s.io/api/batch/v1"
	corev1 "k8s.io/api/core/v1"
	netv1beta1 "k8s.io/api/networking/v1beta1"
	metav1 "k8s.io/apimachinery/pkg/apis/meta/v1"
	k8slabels "k8s.io/apimachinery/pkg/labels"
	"k8s.io/apimachinery/pkg/runtime"
	"k8s.io/apimachinery/pkg/types"
)

// Spec is the abstract description of one API object version.
type Spec struct {
	NS     string            `json:"ns"`
	Name   string            `json:"name"`
	RV     string            `json:"rv"`
	Labels map[string]string `json:"labels,omitempty"`
	// Sel is the selector of workload-like objects (service selector, match
	// labels of deployments...), Refs the backend service names of an ingress.
	Sel  map[string]string `json:"sel,omitempty"`
	Refs []string          `json:"refs,omitempty"`
	Kind string            `json:"kind,omitempty"` // overrides the server's kind (foreign-typed objects)
	UID  string            `json:"uid,omitempty"`  // metadata.uid: one per incarnation of a key (the server assigns it)
	Term bool              `json:"term,omitempty"` // metadata.deletionTimestamp is set: the object is being terminated (it still exists and still changes)
}

func (s Spec) Key() string { return s.NS + "/" + s.Name }

func (s Spec) Ver() int {
	v, err := strconv.Atoi(s.RV)
	if err != nil {
		return -1
	}
	return v
}

func LabelString(m map[string]string) string {
	keys := make([]string, 0, len(m))
	for k := range m {
		keys = append(keys, k)
	}
	sort.Strings(keys)
	var b strings.Builder
	for _, k := range keys {
		b.WriteString(k + "=" + m[k] + ",")
	}
	return b.String()
}

// ID identifies an object version for oracles: key, version and labels.
func (s Spec) ID() string { return s.Key() + "@" + s.RV + "{" + LabelString(s.Labels) + "}" }

func copyMap(m map[string]string) map[string]string {
	if m == nil {
		return nil
	}
	out := make(map[string]string, len(m))
	for k, v := range m {
		out[k] = v
	}
	return out
}

func (s Spec) Clone() Spec {
	s.Labels = copyMap(s.Labels)
	s.Sel = copyMap(s.Sel)
	s.Refs = append([]string(nil), s.Refs...)
	return s
}

// SpecOf reads back the abstract description from a library-side object.
func SpecOf(o metav1.Object) Spec {
	if o == nil {
		return Spec{Name: "<nil>"}
	}
	return Spec{NS: o.GetNamespace(), Name: o.GetName(), RV: o.GetResourceVersion(), Labels: copyMap(o.GetLabels())}
}

func IDOf(o metav1.Object) string { return SpecOf(o).ID() }

// IDs returns the sorted identity list of a set of objects.
func IDs(objs []metav1.Object) []string {
	out := make([]string, 0, len(objs))
	for _, o := range objs {
		out = append(out, IDOf(o))
	}
	sort.Strings(out)
	return out
}

func SpecIDs(specs []Spec) []string {
	out := make([]string, 0, len(specs))
	for _, s := range specs {
		out = append(out, s.ID())
	}
	sort.Strings(out)
	return out
}

func SameIDs(a, b []string) bool {
	if len(a) != len(b) {
		return false
	}
	for i := range a {
		if a[i] != b[i] {
			return false
		}
	}
	return true
}

func meta(s Spec) metav1.ObjectMeta {
	// (scenario scripts carry "being terminated" as the label terminating=true)
	if s.Term || s.Labels["terminating"] == "true" {
		lab := copyMap(s.Labels)
		delete(lab, "terminating")
		om := meta(Spec{NS: s.NS, Name: s.Name, RV: s.RV, Labels: lab, UID: s.UID})
		om.Labels = copyMap(s.Labels)
		ts := metav1.NewTime(time.Unix(1700000000, 0))
		secs := int64(30)
		om.DeletionTimestamp, om.DeletionGracePeriodSeconds = &ts, &secs
		om.Finalizers = []string{"example.com/hold"}
		return om
	}
	// generation is non-zero, as for every object of a real cluster that has a spec
	return metav1.ObjectMeta{Namespace: s.NS, Name: s.Name, ResourceVersion: s.RV, Labels: copyMap(s.Labels), UID: types.UID(s.UID), Generation: 1}
}

func labelSel(m map[string]string) *metav1.LabelSelector {
	if m == nil {
		return nil
	}
	// the reserved key "_expr" carries match expressions: "k notin v1|v2", "k in v1|v2", "!k", "k"
	ls := &metav1.LabelSelector{}
	for k, v := range m {
		if k == "_replicas" {
			continue
		}
		if k != "_expr" {
			if ls.MatchLabels == nil {
				ls.MatchLabels = map[string]string{}
			}
			ls.MatchLabels[k] = v
			continue
		}
		for _, e := range strings.Split(v, ";") {
			f := strings.Fields(e)
			switch {
			case len(f) == 3 && f[1] == "notin":
				ls.MatchExpressions = append(ls.MatchExpressions, metav1.LabelSelectorRequirement{Key: f[0], Operator: metav1.LabelSelectorOpNotIn, Values: strings.Split(f[2], "|")})
			case len(f) == 3 && f[1] == "in":
				ls.MatchExpressions = append(ls.MatchExpressions, metav1.LabelSelectorRequirement{Key: f[0], Operator: metav1.LabelSelectorOpIn, Values: strings.Split(f[2], "|")})
			case len(f) == 1 && strings.HasPrefix(f[0], "!"):
				ls.MatchExpressions = append(ls.MatchExpressions, metav1.LabelSelectorRequirement{Key: f[0][1:], Operator: metav1.LabelSelectorOpDoesNotExist})
			case len(f) == 1:
				ls.MatchExpressions = append(ls.MatchExpressions, metav1.LabelSelectorRequirement{Key: f[0], Operator: metav1.LabelSelectorOpExists})
			}
		}
	}
	return ls
}

// plainSel drops the match-expression carrier (kinds whose selector is a plain map).
func plainSel(m map[string]string) map[string]string {
	_, e := m["_expr"]
	_, r := m["_replicas"]
	if !e && !r {
		return copyMap(m)
	}
	out := map[string]string{}
	for k, v := range m {
		if k != "_expr" && k != "_replicas" {
			out[k] = v
		}
	}
	return out
}

// replicasOf: the reserved selector key "_replicas" carries spec.replicas /
// spec.parallelism (a workload scaled to zero is still a source object, and
// its selector still selects)
func replicasOf(m map[string]string) *int32 {
	v, ok := m["_replicas"]
	if !ok {
		return nil
	}
	n, _ := strconv.Atoi(v)
	r := int32(n)
	return &r
}

// SelectsPod is the harness' own statement of the joins' selection rule for
// one source object of the given kind and one pod - written with
// apimachinery's selectors and plain map comparison, not with kcache's filter
// package, so that a wrong filter shows as a wrong join (the rules themselves,
// including the replication controller's missing namespace restriction and
// "no selector = template labels", are the library's documented ones).
func SelectsPod(kind string, src, pod Spec) bool {
	subset := func(want map[string]string) bool {
		for k, v := range want {
			if pod.Labels[k] != v {
				return false
			}
		}
		return true
	}
	switch kind {
	case "service":
		sel := plainSel(src.Sel)
		return len(sel) > 0 && src.NS == pod.NS && subset(sel)
	case "replicationcontroller":
		return subset(plainSel(src.Sel))
	}
	if src.NS != pod.NS {
		return false
	}
	ls := labelSel(src.Sel)
	if ls == nil {
		return true // no selector: the (empty) template labels
	}
	sel, err := metav1.LabelSelectorAsSelector(ls)
	if err != nil {
		panic("world: invalid selector in scenario: " + err.Error())
	}
	return sel.Matches(k8slabels.Set(pod.Labels))
}

// Build creates the Kubernetes object of the given kind for a spec.
func Build(kind string, s Spec) runtime.Object {
	if s.Kind != "" {
		kind = s.Kind
	}
	om := meta(s)
	tmpl := corev1.PodTemplateSpec{ObjectMeta: metav1.ObjectMeta{Labels: plainSel(s.Sel)}}
	switch kind {
	case "pod":
		return &corev1.Pod{ObjectMeta: om}
	case "service":
		return &corev1.Service{ObjectMeta: om, Spec: corev1.ServiceSpec{Selector: plainSel(s.Sel)}}
	case "secret":
		return &corev1.Secret{ObjectMeta: om}
	case "node":
		return &corev1.Node{ObjectMeta: om}
	case "event":
		return &corev1.Event{ObjectMeta: om}
	case "replicationcontroller":
		return &corev1.ReplicationController{ObjectMeta: om, Spec: corev1.ReplicationControllerSpec{Replicas: replicasOf(s.Sel), Selector: plainSel(s.Sel), Template: &tmpl}}
	case "replicaset":
		return &appsv1.ReplicaSet{ObjectMeta: om, Spec: appsv1.ReplicaSetSpec{Replicas: replicasOf(s.Sel), Selector: labelSel(s.Sel), Template: tmpl}}
	case "deployment":
		return &appsv1.Deployment{ObjectMeta: om, Spec: appsv1.DeploymentSpec{Replicas: replicasOf(s.Sel), Selector: labelSel(s.Sel), Template: tmpl}}
	case "daemonset":
		return &appsv1.DaemonSet{ObjectMeta: om, Spec: appsv1.DaemonSetSpec{Selector: labelSel(s.Sel), Template: tmpl}}
	case "statefulset":
		return &appsv1.StatefulSet{ObjectMeta: om, Spec: appsv1.StatefulSetSpec{Replicas: replicasOf(s.Sel), Selector: labelSel(s.Sel), Template: tmpl}}
	case "job":
		return &batchv1.Job{ObjectMeta: om, Spec: batchv1.JobSpec{Parallelism: replicasOf(s.Sel), Selector: labelSel(s.Sel), Template: tmpl}}
	case "ingress":
		ing := &netv1beta1.Ingress{ObjectMeta: om}
		var paths []netv1beta1.HTTPIngressPath
		for i, r := range s.Refs {
			if i == 0 && len(s.Refs) > 1 {
				// the first reference is the default backend, the rest are rule paths
				ing.Spec.Backend = &netv1beta1.IngressBackend{ServiceName: r}
				continue
			}
			paths = append(paths, netv1beta1.HTTPIngressPath{Backend: netv1beta1.IngressBackend{ServiceName: r}})
		}
		if len(s.Refs) >= 3 {
			// a host-only rule (no http section: valid, selects nothing) in front
			ing.Spec.Rules = append(ing.Spec.Rules, netv1beta1.IngressRule{Host: "plain.example"})
		}
		// rules of up to two paths each (so: several paths per rule, several rules)
		for len(paths) > 0 {
			k := 2
			if len(paths) < k {
				k = len(paths)
			}
			ing.Spec.Rules = append(ing.Spec.Rules, netv1beta1.IngressRule{IngressRuleValue: netv1beta1.IngressRuleValue{HTTP: &netv1beta1.HTTPIngressRuleValue{Paths: paths[:k:k]}}})
			paths = paths[k:]
		}
		return ing
	}
	panic(fmt.Sprintf("world: unknown kind %q", kind))
}

// BuildMeta is Build followed by the metav1.Object view.
func BuildMeta(kind string, s Spec) metav1.Object { return Build(kind, s).(metav1.Object) }

// BuildList wraps specs in a generic list object that kcache's extractList
// understands for every kind (and that can carry foreign-typed objects).
func BuildList(kind string, rv string, specs []Spec) runtime.Object {
	l := &metav1.List{ListMeta: metav1.ListMeta{ResourceVersion: rv}}
	for _, s := range specs {
		l.Items = append(l.Items, runtime.RawExtension{Object: Build(kind, s)})
	}
	return l
}

// BuildTypedList builds the concrete list type of a kind (PodList, ...), as a
// real typed client returns it.
func BuildTypedList(kind string, rv string, specs []Spec) runtime.Object {
	lm := metav1.ListMeta{ResourceVersion: rv}
	switch kind {
	case "pod":
		l := &corev1.PodList{ListMeta: lm}
		for _, s := range specs {
			l.Items = append(l.Items, *Build(kind, s).(*corev1.Pod))
		}
		return l
	case "service":
		l := &corev1.ServiceList{ListMeta: lm}
		for _, s := range specs {
			l.Items = append(l.Items, *Build(kind, s).(*corev1.Service))
		}
		return l
	}
	return BuildList(kind, rv, specs)
}

// AllKinds lists the kinds of the twelve typed packages.
var AllKinds = []string{"pod", "service", "secret", "node", "event", "ingress", "job", "daemonset", "deployment", "replicaset", "replicationcontroller", "statefulset"}
