// Package detsim is a cooperative deterministic scheduler for Go code whose
// channel operations, selects, go statements, timers, rand and map ranges have
// been rewritten (by kcinstr) to call into it.  With no simulation active every
// entry point degrades to the plain Go operation (pass-through mode).
//
// One simulated run: real goroutines, but at most one executes user code at any
// time; every goroutine parks before each channel operation with its pending
// cases, the scheduler (the goroutine that called Run) computes which cases are
// enabled, chooses one through a single decision function (PRNG or tape), and
// releases exactly that goroutine (or a sender/receiver pair for an unbuffered
// rendezvous).  Time is discrete-event: when nothing is enabled the clock jumps
// to the next timer.
package detsim

import (
	"fmt"
	"math/rand"
	"os"
	"runtime"
	"runtime/debug"
	"sort"
	"strings"
	"sync/atomic"
	"time"
	"unsafe"
)

// ---------------------------------------------------------------- config/result

type Strategy struct {
	Kind          string // "uniform" | "pct" | "starve" | "sticky"
	PCTDepth      int    // number of priority change points
	StarveName    string // substring of goroutine name to starve
	StarveK       int    // starved goroutine runs with probability 1/K when others can
	StallPermille int    // probability (per mille, per step) to fire the next timer although ops are enabled
	StallMaxMs    int    // the stall move never jumps the clock by more than this (0 = 5000 ms)
	StickyPct     int    // "sticky": probability (percent) to keep running the same goroutine
}

type Config struct {
	Seed        int64
	Tape        []int // replay: decisions are read from here (mod n); -1 or exhausted => default policy
	Replay      bool
	Strategy    Strategy
	MaxSteps    int
	PermuteMaps bool
	NewTimers   bool // Go >= 1.23 timer channel semantics
	Trace       bool // keep the human readable step trace
	EstSteps    int  // estimate of run length, for PCT change points
	FairAfter   int  // once FairMode() called, strategy reverts to uniform (starve/stall off)
}

type Violation struct {
	Class  string `json:"class"`
	Detail string `json:"detail"`
}

type CaseKey struct {
	Site string
	Case int
}

type GInfo struct {
	ID      int
	Name    string
	Site    string // creation site
	State   string // runnable | blocked | exited
	OpSite  string // where it is parked
	Parent  int
	Created int // step at creation
}

type Result struct {
	Violation *Violation
	Infra     string
	Steps     int
	Now       time.Duration
	TraceHash uint64
	SchedHash uint64 // hash of (goroutine name, site, case) decisions only
	Tape      []int
	Trace     []string
	Counters  map[string]int
	CaseHits  map[CaseKey]int
	MaxG      int
	Contended int // decisions with >= 2 candidates
	TimerFires int
	Stalls    int
	Log       []string // harness log lines (detsim.Logf)
}

// ---------------------------------------------------------------- goroutines

const (
	gRunning = iota
	gRunnable
	gBlocked
	gExited
)

const poison = -1 << 30

type G struct {
	id      int
	name    string
	site    string
	parent  int
	created int
	wake    chan int
	state   int
	cases   []Case
	hasDef  bool
	settle  bool
	opSite  string
	prio    int64
	locks   int // simulated mutexes currently held
	enabled []int // cached: enabled case indexes (valid while registered and not dirty)
	registered bool // its pending cases are in the scheduler's channel indexes
	needEval   bool
	lib     bool  // created (transitively) by non-harness code; informational
}

type Case struct {
	ch    unsafe.Pointer
	send  bool
	lenf  func() int
	capv  int
	probe func() bool
}

func chanPtr[C any](c C) unsafe.Pointer { return *(*unsafe.Pointer)(unsafe.Pointer(&c)) }

// R describes a pending receive on c.
func R[C ~chan T | ~<-chan T, T any](c C) Case {
	if c == nil {
		return Case{}
	}
	return Case{ch: chanPtr(c), lenf: func() int { return len(c) }, capv: cap(c),
		probe: func() bool {
			select {
			case _, ok := <-c:
				return !ok
			default:
				return false
			}
		}}
}

// S describes a pending send on c.
func S[C ~chan T | ~chan<- T, T any](c C) Case {
	if c == nil {
		return Case{}
	}
	return Case{ch: chanPtr(c), send: true, lenf: func() int { return len(c) }, capv: cap(c)}
}

// ---------------------------------------------------------------- sim

type Sim struct {
	inInvariant bool
	ctxSeq  int
	openCtx map[int]openCtx
	cfg     Config
	gs      []*G
	current *G
	lastRun *G
	parkCh  chan struct{}
	closed  map[unsafe.Pointer]bool
	sendW   map[unsafe.Pointer][]*G
	recvW   map[unsafe.Pointer][]*G
	blockedOn map[unsafe.Pointer][]*G // goroutines with a pending case on the channel (either direction)
	dirty     []unsafe.Pointer         // channels whose waiters must be re-evaluated
	live      []*G                     // not yet exited, in id order
	justRan   []*G                     // released in the last step (the only ones that can have parked anew)
	sinceFull int
	touches   map[touchKey][]touchRec
	probeHit  bool // a probe discovered an untracked close during this evaluation
	verify    bool

	timers  []*Timer // heap by (when, seq)
	now     int64
	seq     uint64
	steps   int
	rng     *rand.Rand
	rngUser *rand.Rand
	tapeIn  []int
	tapePos int
	tapeOut []int

	violation *Violation
	infra     string
	aborting  bool
	rootDone  bool
	fair      bool

	traceHash uint64
	schedHash uint64
	trace     []string
	counters  map[string]int
	caseHits  map[CaseKey]int
	maxG      int
	contended int
	timerFires int
	stalls    int
	log       []string

	ptrIDs  map[unsafe.Pointer]int
	pctChange map[int]bool
	starveOn  bool

	nReal    int
	drops      map[unsafe.Pointer]int
	totalDrops int
	holdTime bool
	invariant func() (string, string)
	stepHooks []stepHook
	progress int64 // atomic, for the watchdog
}

var cur *Sim // the active simulation, nil in pass-through mode

// Active reports whether a simulation is running (false = pass-through).
func Active() bool { return cur != nil }

func fnvMix(h uint64, s string) uint64 {
	if h == 0 {
		h = 1469598103934665603
	}
	for i := 0; i < len(s); i++ {
		h ^= uint64(s[i])
		h *= 1099511628211
	}
	h ^= 0xff
	h *= 1099511628211
	return h
}

func fnvInt(h uint64, v int) uint64 {
	if h == 0 {
		h = 1469598103934665603
	}
	for i := 0; i < 4; i++ {
		h ^= uint64(byte(v >> (8 * i)))
		h *= 1099511628211
	}
	return h
}

// Run executes root under the simulator and returns when root has returned
// (remaining goroutines are then aborted), a violation was recorded, or the
// system deadlocked with root still blocked.
func Run(cfg Config, root func()) *Result {
	if cur != nil {
		panic("detsim: nested Run")
	}
	if cfg.MaxSteps == 0 {
		cfg.MaxSteps = 2000000
	}
	s := &Sim{
		cfg:      cfg,
		parkCh:   make(chan struct{}, 1024),
		closed:   map[unsafe.Pointer]bool{},
		sendW:    map[unsafe.Pointer][]*G{},
		recvW:    map[unsafe.Pointer][]*G{},
		blockedOn: map[unsafe.Pointer][]*G{},
		verify:   os.Getenv("DETSIM_VERIFY") != "",
		rng:      rand.New(rand.NewSource(cfg.Seed)),
		rngUser:  rand.New(rand.NewSource(cfg.Seed ^ 0x5deece66d)),
		tapeIn:   cfg.Tape,
		counters: map[string]int{},
		caseHits: map[CaseKey]int{},
		ptrIDs:   map[unsafe.Pointer]int{},
		drops:    map[unsafe.Pointer]int{},
	}
	if cfg.Strategy.Kind == "pct" && !cfg.Replay {
		s.pctChange = map[int]bool{}
		est := cfg.EstSteps
		if est <= 0 {
			est = 2000
		}
		for i := 0; i < cfg.Strategy.PCTDepth; i++ {
			s.pctChange[s.rng.Intn(est)] = true
		}
	}
	s.starveOn = cfg.Strategy.Kind == "starve"
	cur = s
	stopWD := s.startWatchdog()
	g := s.newG("root", "root", nil)
	s.start(g, root)
	s.loop(g)
	s.abortAll()
	stopWD()
	cur = nil
	res := &Result{
		Violation: s.violation, Infra: s.infra, Steps: s.steps, Now: time.Duration(s.now),
		TraceHash: s.traceHash, SchedHash: s.schedHash, Tape: s.tapeOut, Trace: s.trace,
		Counters: s.counters, CaseHits: s.caseHits, MaxG: s.maxG, Contended: s.contended,
		TimerFires: s.timerFires, Stalls: s.stalls, Log: s.log,
	}
	return res
}

func (s *Sim) startWatchdog() func() {
	stop := make(chan struct{})
	go func() {
		last := int64(-1)
		stuck := 0
		for {
			select {
			case <-stop:
				return
			case <-time.After(2 * time.Second):
			}
			p := atomic.LoadInt64(&s.progress)
			if p == last {
				stuck++
			} else {
				stuck = 0
				last = p
			}
			if stuck >= 10 {
				buf := make([]byte, 1<<20)
				n := runtime.Stack(buf, true)
				fmt.Fprintf(os.Stderr, "detsim: INFRA watchdog: no scheduler progress for 20s at step %d (a goroutine is blocked or spinning outside the simulator)\n%s\n", s.steps, buf[:n])
				os.Exit(2)
			}
		}
	}()
	return func() { close(stop) }
}

func (s *Sim) newG(name, site string, parent *G) *G {
	g := &G{id: len(s.gs), name: name, site: site, wake: make(chan int, 1), state: gRunnable, created: s.steps}
	if parent != nil {
		g.parent = parent.id
	} else {
		g.parent = -1
	}
	g.prio = s.rng.Int63()
	s.gs = append(s.gs, g)
	s.live = append(s.live, g)
	return g
}

func (s *Sim) start(g *G, fn func()) {
	go func() {
		defer func() {
			r := recover()
			if r != nil && !s.aborting {
				s.notePanic(g, r, debug.Stack())
			}
			g.state = gExited
			g.cases = nil
			s.parkCh <- struct{}{}
		}()
		if <-g.wake == poison {
			return
		}
		fn()
	}()
}

func (s *Sim) notePanic(g *G, r interface{}, stack []byte) {
	if s.violation != nil {
		return
	}
	top := "?"
	pref := ""
	lines := strings.Split(string(stack), "\n")
	// find the panic() frame, then the first frame below it that is not
	// runtime/detsim (top), and the first one inside a preferred package
	seenPanic := false
	for i := 0; i+1 < len(lines); i++ {
		l := lines[i]
		if strings.HasPrefix(l, "panic(") {
			seenPanic = true
			continue
		}
		if !seenPanic || strings.HasPrefix(l, "\t") || strings.HasPrefix(l, "goroutine ") || l == "" {
			continue
		}
		if strings.HasPrefix(l, "runtime.") || strings.HasPrefix(l, "detsim.") {
			continue
		}
		fn := l
		if j := strings.LastIndex(fn, "("); j > 0 {
			fn = fn[:j]
		}
		if top == "?" {
			top = fn
		}
		if pref == "" {
			for _, p := range PanicFramePrefixes {
				if strings.HasPrefix(fn, p) {
					pref = fn
				}
			}
		}
	}
	if pref != "" {
		top = pref
	}
	if us, ok := r.(UserFail); ok {
		s.violation = &Violation{Class: us.Class, Detail: us.Detail}
		return
	}
	s.violation = &Violation{Class: "panic:" + top, Detail: fmt.Sprintf("goroutine %d (%s) panicked: %v\n%s", g.id, g.name, r, stack)}
}

type UserFail struct{ Class, Detail string }

// PanicFramePrefixes: a panic is classified by the first stack frame whose
// function name starts with one of these (else by the innermost user frame).
var PanicFramePrefixes []string

// park hands control to the scheduler and blocks until released.
func (s *Sim) park(g *G) int {
	s.parkCh <- struct{}{}
	v := <-g.wake
	if v == poison {
		runtime.Goexit()
	}
	return v
}

type cand struct {
	g     *G
	timer *Timer
	stall bool
}

func (s *Sim) loop(root *G) {
	pendingParks := 0
	// release root
	s.current = root
	root.state = gRunning
	root.wake <- 0
	pendingParks = 1
	var cands []cand
	for {
		for ; pendingParks > 0; pendingParks-- {
			<-s.parkCh
		}
		atomic.AddInt64(&s.progress, 1)
		if s.violation != nil || s.infra != "" {
			return
		}
		if root.state == gExited {
			s.rootDone = true
			return
		}
		if s.steps >= s.cfg.MaxSteps {
			s.violation = &Violation{Class: "steplimit", Detail: fmt.Sprintf("run exceeded %d steps\n%s", s.cfg.MaxSteps, s.dump())}
			return
		}
		if s.invariant != nil {
			s.inInvariant = true // (the invariant runs on the scheduler: statement-level yields in code it calls are no-ops)
			class, detail := s.invariant()
			s.inInvariant = false
			if class != "" {
				s.violation = &Violation{Class: class, Detail: detail}
				return
			}
		}
		for len(s.stepHooks) > 0 && s.stepHooks[0].at <= s.steps {
			h := s.stepHooks[0]
			s.stepHooks = s.stepHooks[1:]
			g := s.newG(h.name, "stephook", nil)
			g.parent = -2
			s.start(g, h.fn)
		}
		cands = s.computeEnabled(cands[:0])
		if len(cands) == 0 {
			// quiescent at this instant: settle waiters first, then time
			var sw []*G
			for _, g := range s.gs {
				if g.state == gBlocked && g.settle {
					sw = append(sw, g)
				}
			}
			if len(sw) > 0 {
				g := sw[0]
				if len(sw) > 1 {
					g = sw[s.choose("settle", len(sw), 0)]
				}
				s.release(g, 0, false)
				pendingParks = 1
				continue
			}
			if len(s.timers) > 0 {
				s.now = s.timers[0].when
				continue // timers at s.now are now due and become candidates
			}
			s.violation = &Violation{Class: "wedge", Detail: "system idle with root blocked and no timer pending\n" + s.dump()}
			return
		}
		// choose a candidate
		ci := 0
		if len(cands) > 1 {
			if s.nReal > 1 {
				s.contended++
			}
			ci = s.pick(cands)
		}
		c := cands[ci]
		s.steps++
		if c.timer != nil {
			if c.stall {
				s.stalls++
				if c.timer.when > s.now {
					s.now = c.timer.when
				}
			}
			s.fire(c.timer)
			continue
		}
		g := c.g
		if g.state == gRunnable {
			s.record(g, g.opSite, -1)
			s.release(g, 0, false)
			pendingParks = 1
			continue
		}
		// blocked with enabled cases
		en := g.enabled
		k := en[0]
		if len(en) > 1 {
			k = en[s.choose("case", len(en), 0)]
		}
		if k == len(g.cases) { // default
			// a non-blocking send that finds its buffer full drops the value:
			// remember which buffers overflowed (a semantic signal, independent
			// of log texts and line numbers)
			for _, c := range g.cases {
				if c.send && c.ch != nil && c.capv > 0 && c.lenf() >= c.capv {
					s.drops[c.ch]++
					s.totalDrops++
				}
			}
			s.record(g, g.opSite, k)
			s.release(g, k, false)
			pendingParks = 1
			continue
		}
		cs := g.cases[k]
		needPartner := false
		if cs.capv == 0 && !s.closed[cs.ch] {
			if cs.send {
				needPartner = true
			} else if cs.lenf() == 0 {
				// enabled by a sender (or by an untracked close, which computeEnabled recorded)
				needPartner = true
			}
		}
		if !needPartner {
			s.record(g, g.opSite, k)
			s.release(g, k, false)
			pendingParks = 1
			continue
		}
		var partners []*G
		if cs.send {
			partners = s.recvW[cs.ch]
		} else {
			partners = s.sendW[cs.ch]
		}
		var ps []*G
		for _, p := range partners {
			if p != g {
				ps = append(ps, p)
			}
		}
		if len(ps) == 0 {
			s.infra = "detsim: internal: rendezvous case enabled without partner\n" + s.dump()
			return
		}
		p := ps[0]
		if len(ps) > 1 {
			p = ps[s.choose("partner", len(ps), 0)]
		}
		// partner's matching case: first case on this channel with opposite direction
		pk := -1
		for i, pc := range p.cases {
			if pc.ch == cs.ch && pc.send != cs.send {
				pk = i
				break
			}
		}
		s.record(g, g.opSite, k)
		s.record(p, p.opSite, pk)
		s.release(g, k, true)
		s.release(p, pk, true)
		pendingParks = 2
	}
}

func removeG(list []*G, g *G) []*G {
	for i, x := range list {
		if x == g {
			copy(list[i:], list[i+1:])
			list[len(list)-1] = nil
			return list[:len(list)-1]
		}
	}
	return list
}

// unregister takes g's pending cases out of the channel indexes; every channel
// it was waiting on becomes dirty (waiter lists change, and the operation about
// to happen changes the channel's length).
func (s *Sim) unregister(g *G) {
	if !g.registered {
		return
	}
	g.registered = false
	for _, c := range g.cases {
		if c.ch == nil {
			continue
		}
		if l := removeG(s.blockedOn[c.ch], g); len(l) == 0 {
			delete(s.blockedOn, c.ch)
		} else {
			s.blockedOn[c.ch] = l
		}
		if c.capv == 0 {
			if c.send {
				if l := removeG(s.sendW[c.ch], g); len(l) == 0 {
					delete(s.sendW, c.ch)
				} else {
					s.sendW[c.ch] = l
				}
			} else {
				if l := removeG(s.recvW[c.ch], g); len(l) == 0 {
					delete(s.recvW, c.ch)
				} else {
					s.recvW[c.ch] = l
				}
			}
		}
		s.dirty = append(s.dirty, c.ch)
	}
}

// register puts a newly blocked goroutine's cases into the indexes.
func (s *Sim) register(g *G) {
	g.registered = true
	g.needEval = true
	for i, c := range g.cases {
		if c.ch == nil {
			continue
		}
		dup := false
		for _, d := range g.cases[:i] {
			if d.ch == c.ch && d.send == c.send {
				dup = true
			}
		}
		if !containsG(s.blockedOn[c.ch], g) {
			s.blockedOn[c.ch] = append(s.blockedOn[c.ch], g)
		}
		if c.capv == 0 && !dup {
			if c.send {
				s.sendW[c.ch] = append(s.sendW[c.ch], g)
			} else {
				s.recvW[c.ch] = append(s.recvW[c.ch], g)
			}
		}
		s.dirty = append(s.dirty, c.ch)
	}
}

func containsG(list []*G, g *G) bool {
	for _, x := range list {
		if x == g {
			return true
		}
	}
	return false
}

func (s *Sim) release(g *G, k int, pair bool) {
	s.unregister(g)
	s.justRan = append(s.justRan, g)
	g.state = gRunning
	g.cases = nil
	g.settle = false
	s.current = g
	s.lastRun = g
	v := k << 1
	if pair {
		v |= 1
	}
	g.wake <- v
}

func (s *Sim) record(g *G, site string, k int) {
	s.traceHash = fnvInt(fnvMix(fnvInt(s.traceHash, g.id), site), k)
	s.schedHash = fnvInt(fnvMix(fnvMix(s.schedHash, g.name), site), k)
	if k >= 0 {
		s.caseHits[CaseKey{site, k}]++
	}
	if s.cfg.Trace {
		s.trace = append(s.trace, fmt.Sprintf("%d t=%v g%d[%s] %s case=%d", s.steps, time.Duration(s.now), g.id, g.name, site, k))
	}
}


// computeEnabled fills g.enabled for every blocked goroutine and returns the
// candidate list: goroutines (by id) with at least one enabled move, then due
// timers, then (stall strategy) possibly the next future timer.
func (s *Sim) computeEnabled(cands []cand) []cand {
	// 1. goroutines that ran in the last step (or were just created) may have
	//    parked with new pending cases
	for _, g := range s.justRan {
		if g.state == gBlocked && !g.settle && !g.registered {
			s.register(g)
		}
	}
	s.justRan = s.justRan[:0]
	exited := 0
	for _, g := range s.live {
		switch g.state {
		case gExited:
			exited++
		case gBlocked:
			if !g.settle && !g.registered { // new goroutines park for the first time without having been released
				s.register(g)
			}
		}
	}
	if exited > 32 && exited*2 > len(s.live) {
		keep := s.live[:0]
		for _, g := range s.live {
			if g.state != gExited {
				keep = append(keep, g)
			}
		}
		for i := len(keep); i < len(s.live); i++ {
			s.live[i] = nil
		}
		s.live = keep
		exited = 0
	}
	if n := len(s.live) - exited; n > s.maxG {
		s.maxG = n
	}
	// 2. re-evaluate the waiters of every channel something happened to
	s.sinceFull++
	full := s.sinceFull >= 64 || s.verify
	cands = s.evalAndCollect(cands, full)
	if len(cands) == 0 && !full {
		// about to conclude "nothing can run": channels closed by uninstrumented
		// code (context cancellation) are only found by probing - look at everybody
		cands = s.evalAndCollect(cands[:0], true)
	}
	nops := len(cands)
	for _, t := range s.timers {
		if t.when <= s.now {
			cands = append(cands, cand{timer: t})
		}
	}
	if len(cands) > nops {
		// order due timers by (when, seq) for determinism
		tc := cands[nops:]
		sort.Slice(tc, func(i, j int) bool {
			if tc[i].timer.when != tc[j].timer.when {
				return tc[i].timer.when < tc[j].timer.when
			}
			return tc[i].timer.seq < tc[j].timer.seq
		})
	}
	s.nReal = len(cands)
	if nops > 0 && len(cands) == nops && len(s.timers) > 0 && !s.timers[0].noStall && !s.fair && !s.holdTime && s.cfg.Strategy.StallPermille > 0 && s.timers[0].when-s.now <= s.stallMax() && !s.deadlineWithin(s.timers[0].when) {
		// stall move ("time passes although work is pending"): always offered as
		// the LAST candidate, in search and in replay, so candidate numbering is
		// identical in both modes; the default policy never selects it.
		cands = append(cands, cand{timer: s.timers[0], stall: true})
	}
	return cands
}

// evalAndCollect recomputes the enabled cases of the goroutines that need it
// (all of them when full) and returns the operation candidates in id order.
func (s *Sim) evalAndCollect(cands []cand, full bool) []cand {
	if full {
		s.sinceFull = 0
	}
	for _, ch := range s.dirty {
		for _, g := range s.blockedOn[ch] {
			g.needEval = true
		}
	}
	s.dirty = s.dirty[:0]
	for _, g := range s.live {
		switch g.state {
		case gRunnable:
			cands = append(cands, cand{g: g})
		case gBlocked:
			if g.settle {
				continue
			}
			if g.needEval || full {
				var before []int
				if s.verify && !g.needEval {
					before = append(before, g.enabled...)
				}
				wasStale := g.needEval
				g.needEval = false
				g.enabled = g.enabled[:0]
				for i, c := range g.cases {
					if c.ch == nil {
						continue
					}
					if s.caseEnabled(g, c) {
						g.enabled = append(g.enabled, i)
					}
				}
				if len(g.enabled) == 0 && g.hasDef {
					g.enabled = append(g.enabled, len(g.cases))
				}
				if s.verify && !wasStale && !sameInts(before, g.enabled) && !s.probeHit {
					if s.infra == "" {
						s.infra = fmt.Sprintf("detsim: internal: incremental enabledness of g%d[%s] at %s was %v, full recomputation gives %v", g.id, g.name, g.opSite, before, g.enabled)
					}
				}
			}
			if len(g.enabled) > 0 {
				cands = append(cands, cand{g: g})
			}
		}
	}
	s.probeHit = false
	return cands
}

func sameInts(a, b []int) bool {
	if len(a) != len(b) {
		return false
	}
	for i := range a {
		if a[i] != b[i] {
			return false
		}
	}
	return true
}

// deadlineWithin: some harness deadline timer expires at or before t (a stall
// move must never make a deadline fire together with the work it bounds).
func (s *Sim) deadlineWithin(t int64) bool {
	for _, tm := range s.timers {
		if tm.noStall && tm.when <= t {
			return true
		}
	}
	return false
}

func (s *Sim) stallMax() int64 {
	m := s.cfg.Strategy.StallMaxMs
	if m <= 0 {
		m = 5000
	}
	return int64(m) * int64(time.Millisecond)
}

func (s *Sim) caseEnabled(g *G, c Case) bool {
	if s.closed[c.ch] {
		return true // recv of closed: immediate; send on closed: panics, as in Go
	}
	if c.send {
		if c.capv > 0 {
			return c.lenf() < c.capv
		}
		for _, p := range s.recvW[c.ch] {
			if p != g {
				return true
			}
		}
		return false
	}
	if c.lenf() > 0 {
		return true
	}
	if c.capv == 0 {
		for _, p := range s.sendW[c.ch] {
			if p != g {
				return true
			}
		}
	}
	// channel closed by uninstrumented code (context cancellation)?
	if c.probe != nil && c.probe() {
		s.closed[c.ch] = true
		s.dirty = append(s.dirty, c.ch) // other waiters of this channel must be looked at again
		s.probeHit = true
		return true
	}
	return false
}

// pick chooses among >= 2 candidates (the stall candidate, if present, is last).
func (s *Sim) pick(cands []cand) int {
	n := len(cands)
	idx := 0
	if s.cfg.Replay {
		idx = s.tapeNext(n, s.defaultCand(cands))
		s.tapeOut = append(s.tapeOut, idx)
		return idx
	}
	if cands[n-1].stall {
		if s.rng.Intn(1000) < s.cfg.Strategy.StallPermille {
			s.tapeOut = append(s.tapeOut, n-1)
			return n - 1
		}
		n--
		cands = cands[:n]
		if n == 1 {
			s.tapeOut = append(s.tapeOut, 0)
			return 0
		}
	}
	st := s.cfg.Strategy
	kind := st.Kind
	if s.fair {
		kind = "uniform"
	}
	switch kind {
	case "pct":
		if s.pctChange[s.steps] && s.lastRun != nil {
			s.lastRun.prio = -int64(s.steps) // lowest so far
		}
		best := int64(0)
		for i, c := range cands {
			var p int64
			if c.g != nil {
				p = c.g.prio
			} else {
				p = s.rng.Int63()
			}
			if i == 0 || p > best {
				best, idx = p, i
			}
		}
	case "starve":
		var ok []int
		for i, c := range cands {
			if c.g != nil && st.StarveName != "" && strings.Contains(c.g.name, st.StarveName) {
				continue
			}
			ok = append(ok, i)
		}
		k := st.StarveK
		if k <= 0 {
			k = 20
		}
		if len(ok) == 0 || len(ok) == n || s.rng.Intn(k) == 0 {
			idx = s.rng.Intn(n)
		} else {
			idx = ok[s.rng.Intn(len(ok))]
		}
	case "sticky":
		idx = -1
		if s.lastRun != nil && s.rng.Intn(100) < st.StickyPct {
			for i, c := range cands {
				if c.g == s.lastRun {
					idx = i
				}
			}
		}
		if idx < 0 {
			idx = s.rng.Intn(n)
		}
	default:
		idx = s.rng.Intn(n)
	}
	s.tapeOut = append(s.tapeOut, idx)
	return idx
}

func (s *Sim) defaultCand(cands []cand) int {
	if s.lastRun != nil {
		for i, c := range cands {
			if c.g == s.lastRun {
				return i
			}
		}
	}
	return 0
}

// tapeNext reads the next replay decision (mod n); -1 or an exhausted tape
// gives the default policy.
func (s *Sim) tapeNext(n, def int) int {
	v := def
	if s.tapePos < len(s.tapeIn) {
		t := s.tapeIn[s.tapePos]
		s.tapePos++
		if t >= 0 {
			v = t % n
		}
	}
	return v
}

// choose is the single decision function for everything except candidate
// picking (which ends in the same tape).
func (s *Sim) choose(kind string, n int, def int) int {
	if n <= 1 {
		return 0
	}
	var v int
	if s.cfg.Replay {
		v = s.tapeNext(n, def)
	} else {
		v = s.rng.Intn(n)
	}
	s.tapeOut = append(s.tapeOut, v)
	return v
}

func (s *Sim) dump() string {
	var b strings.Builder
	for _, g := range s.gs {
		if g.state == gExited {
			continue
		}
		fmt.Fprintf(&b, "  g%d[%s] created@%s state=%s parked@%s\n", g.id, g.name, g.site, stateName(g.state), g.opSite)
	}
	return b.String()
}

func stateName(st int) string {
	switch st {
	case gRunning:
		return "running"
	case gRunnable:
		return "runnable"
	case gBlocked:
		return "blocked"
	}
	return "exited"
}

func (s *Sim) abortAll() {
	s.aborting = true
	// drain: every goroutine is parked (or exited) when loop returns, except
	// that after a violation raised by the running goroutine it has already
	// exited through Goexit.
	for _, g := range s.gs {
		if g.state == gExited {
			continue
		}
		g.wake <- poison
		<-s.parkCh
	}
	// goroutines created during unwinding (deferred code calling Go) never start:
	// Go() refuses while aborting.
}

// ---------------------------------------------------------------- public ops

type Token struct {
	I    int
	g    *G
	pair bool
}

// Done is called as the first statement after the real channel operation.
func (t Token) Done() {
	if t.g == nil || !t.pair {
		return
	}
	s := cur
	g := t.g
	g.state = gRunnable
	g.opSite = "after-rendezvous"
	s.park(g)
}

func (s *Sim) me() *G {
	if s.aborting {
		runtime.Goexit()
	}
	return s.current
}

// Select parks the goroutine with its pending cases and returns the chosen one
// (len(cases) = default).  I == -1 means pass-through: do not mask.
func Select(site string, hasDefault bool, cases ...Case) Token {
	s := cur
	if s == nil {
		return Token{I: -1}
	}
	g := s.me()
	g.state = gBlocked
	g.cases = cases
	g.hasDef = hasDefault
	g.opSite = site
	v := s.park(g)
	return Token{I: v >> 1, g: g, pair: v&1 == 1}
}

func Recv[C ~chan T | ~<-chan T, T any](site string, c C) T {
	if cur == nil {
		return <-c
	}
	t := Select(site, false, R(c))
	v := <-c
	t.Done()
	return v
}

func Recv2[C ~chan T | ~<-chan T, T any](site string, c C) (T, bool) {
	if cur == nil {
		v, ok := <-c
		return v, ok
	}
	t := Select(site, false, R(c))
	v, ok := <-c
	t.Done()
	return v, ok
}

func Close[C ~chan T | ~chan<- T, T any](site string, c C) {
	s := cur
	if s == nil {
		close(c)
		return
	}
	if !s.aborting {
		s.closed[chanPtr(c)] = true
		s.dirty = append(s.dirty, chanPtr(c))
	}
	close(c)
}

// Go starts fn as a simulated goroutine (runnable, not yet running).
func Go(site, name string, fn func()) {
	s := cur
	if s == nil {
		go fn()
		return
	}
	if s.aborting {
		return
	}
	parent := s.current
	g := s.newG(name, site, parent)
	s.start(g, fn)
}

// Yield is a pure preemption point.
func Yield(site string) {
	s := cur
	if s == nil || s.inInvariant {
		return
	}
	g := s.me()
	g.state = gRunnable
	g.opSite = site
	s.park(g)
}

// Settle blocks until every other goroutine is blocked and no timer is due:
// the system is quiescent at the current simulated instant.
func Settle() {
	s := cur
	if s == nil {
		time.Sleep(20 * time.Millisecond)
		return
	}
	g := s.me()
	g.state = gBlocked
	g.cases = nil
	g.hasDef = false
	g.settle = true
	g.opSite = "settle"
	s.park(g)
}

// Choose is a harness-level decision (fault coin flips, generated operations
// inside a run); it goes through the same tape as scheduling decisions.
func Choose(label string, n int) int {
	s := cur
	if s == nil {
		return rand.Intn(n)
	}
	if s.aborting {
		runtime.Goexit()
	}
	v := s.choose(label, n, 0)
	s.traceHash = fnvInt(fnvMix(s.traceHash, label), v)
	if s.cfg.Trace {
		s.trace = append(s.trace, fmt.Sprintf("%d t=%v choose %s n=%d -> %d", s.steps, time.Duration(s.now), label, n, v))
	}
	return v
}

// Fail records a violation and ends the run.
func Fail(class, format string, args ...interface{}) {
	s := cur
	if s == nil {
		panic(fmt.Sprintf("VIOLATION %s: %s", class, fmt.Sprintf(format, args...)))
	}
	if s.aborting {
		runtime.Goexit()
	}
	if s.violation == nil {
		s.violation = &Violation{Class: class, Detail: fmt.Sprintf(format, args...)}
	}
	runtime.Goexit()
}

// FairMode switches starvation and stalling off for the rest of the run
// (used once faults have stopped, so that unfairness is never mistaken for a hang).
func FairMode() {
	if s := cur; s != nil {
		s.fair = true
	}
}

func Count(name string) {
	if s := cur; s != nil {
		s.counters[name]++
	}
}

func CountN(name string, n int) {
	if s := cur; s != nil {
		s.counters[name] += n
	}
}

func Logf(format string, args ...interface{}) {
	s := cur
	if s == nil || !s.cfg.Trace {
		return
	}
	line := fmt.Sprintf("%d t=%v | ", s.steps, time.Duration(s.now)) + fmt.Sprintf(format, args...)
	s.trace = append(s.trace, line)
}

// Note mixes a harness observation into the trace hash (so that replays are
// compared on observations too) and logs it when tracing.
func Note(format string, args ...interface{}) {
	s := cur
	if s == nil {
		return
	}
	line := fmt.Sprintf(format, args...)
	s.traceHash = fnvMix(s.traceHash, line)
	if s.cfg.Trace {
		s.trace = append(s.trace, fmt.Sprintf("%d t=%v | %s", s.steps, time.Duration(s.now), line))
	}
}

func Steps() int {
	if s := cur; s != nil {
		return s.steps
	}
	return 0
}

// Goroutines returns a snapshot of all goroutines created in this run.
func Goroutines() []GInfo {
	s := cur
	if s == nil {
		return nil
	}
	out := make([]GInfo, 0, len(s.gs))
	for _, g := range s.gs {
		out = append(out, GInfo{ID: g.id, Name: g.name, Site: g.site, State: stateName(g.state), OpSite: g.opSite, Parent: g.parent, Created: g.created})
	}
	return out
}

// CurrentG returns the id of the running goroutine (-1 in pass-through).
func CurrentG() int {
	if s := cur; s != nil && s.current != nil {
		return s.current.id
	}
	return -1
}

// ---------------------------------------------------------------- rand

func RandFloat64() float64 {
	if s := cur; s != nil {
		return s.rngUser.Float64()
	}
	return rand.Float64()
}
func RandIntn(n int) int {
	if s := cur; s != nil {
		return s.rngUser.Intn(n)
	}
	return rand.Intn(n)
}
func RandInt63n(n int64) int64 {
	if s := cur; s != nil {
		return s.rngUser.Int63n(n)
	}
	return rand.Int63n(n)
}
func RandInt63() int64 {
	if s := cur; s != nil {
		return s.rngUser.Int63()
	}
	return rand.Int63()
}
func RandInt() int {
	if s := cur; s != nil {
		return s.rngUser.Int()
	}
	return rand.Int()
}
func RandInt31n(n int32) int32 {
	if s := cur; s != nil {
		return s.rngUser.Int31n(n)
	}
	return rand.Int31n(n)
}
func RandPerm(n int) []int {
	if s := cur; s != nil {
		return s.rngUser.Perm(n)
	}
	return rand.Perm(n)
}
func RandShuffle(n int, swap func(i, j int)) {
	if s := cur; s != nil {
		s.rngUser.Shuffle(n, swap)
		return
	}
	rand.Shuffle(n, swap)
}

type stepHook struct {
	at   int
	name string
	fn   func()
}

// AtStep starts fn as a new goroutine once the run has executed 'step'
// scheduler steps (crash/shutdown-point injection).
func AtStep(step int, name string, fn func()) {
	s := cur
	if s == nil {
		return
	}
	s.stepHooks = append(s.stepHooks, stepHook{step, name, fn})
	sort.SliceStable(s.stepHooks, func(i, j int) bool { return s.stepHooks[i].at < s.stepHooks[j].at })
}

// SetInvariant installs a function evaluated by the scheduler after every
// step, while every goroutine is parked.  It must only inspect state (len of
// channels, IsClosed, plain memory) and never perform channel operations.
func SetInvariant(fn func() (class, detail string)) {
	if s := cur; s != nil {
		s.invariant = fn
	}
}

// IsClosed reports whether a signal channel (one that never carries values)
// has been closed, without blocking.
func IsClosed[C ~chan T | ~<-chan T, T any](c C) bool {
	if c == nil {
		return false
	}
	if s := cur; s != nil && s.closed[chanPtr(c)] {
		return true
	}
	select {
	case _, ok := <-c:
		return !ok
	default:
		return false
	}
}

// HoldTime switches the stall move off (true) or back on (false): while held,
// simulated time advances only when nothing is enabled, so a sequence of
// harness reads after Settle() observes one instant, and a deadline measures
// what it says.
func HoldTime(on bool) {
	if s := cur; s != nil {
		s.holdTime = on
	}
}

// Spin yields the processor while a select-with-default waits for its
// rendezvous partner to reach the real channel operation (see kcinstr).
func Spin() { runtime.Gosched() }

// TotalDrops is the number of values dropped so far by non-blocking sends
// (select with default) on full buffered channels, anywhere in the run.
func TotalDrops() int {
	if s := cur; s != nil {
		return s.totalDrops
	}
	return 0
}

// DropsOn is the number of values dropped because this channel's buffer was full.
func DropsOn[C ~chan T | ~<-chan T, T any](c C) int {
	if s := cur; s != nil && c != nil {
		return s.drops[chanPtr(c)]
	}
	return 0
}
