package detsim

import (
	"fmt"
	"reflect"
	"unsafe"
)

// Touch is inserted by kcinstr (-owner) before every statement that reads or
// writes a mutable field of an actor-owned struct (e.g. _cache.items).  The
// discipline checked is the one the anchors of C15 state: such a field is only
// ever touched by one goroutine (its actor).  Two different goroutines may
// touch the same (field, object) only if
//   - every access is a read, or
//   - the earlier accessor is an ancestor of the later one and touched the
//     field before it created that descendant (initialise-then-spawn), or
//   - both hold a simulated mutex at the time (lock-protected state).
// Anything else is a data race on actor state in the real program, whether or
// not it changes a result in the simulated run.
type touchRec struct {
	g     *G
	step  int
	write bool
	site  string
}

type touchKey struct {
	name string
	obj  unsafe.Pointer
}

func objPtr(obj interface{}) unsafe.Pointer {
	v := reflect.ValueOf(obj)
	switch v.Kind() {
	case reflect.Ptr, reflect.Map, reflect.Chan, reflect.Func, reflect.UnsafePointer:
		return v.UnsafePointer()
	}
	return nil
}

func (s *Sim) isAncestor(a, b *G) bool {
	for p := b; p != nil; {
		if p == a {
			return true
		}
		if p.parent < 0 || p.parent >= len(s.gs) {
			return false
		}
		p = s.gs[p.parent]
	}
	return false
}

func Touch(site, name string, obj interface{}, write bool) {
	s := cur
	if s == nil || s.aborting {
		return
	}
	p := objPtr(obj)
	if p == nil {
		return // value receiver or nil: nothing shared to protect
	}
	g := s.current
	if g == nil {
		return
	}
	if s.touches == nil {
		s.touches = map[touchKey][]touchRec{}
	}
	k := touchKey{name, p}
	now := touchRec{g: g, step: s.steps, write: write, site: site}
	recs := s.touches[k]
	for _, r := range recs {
		if r.g == g || (!r.write && !write) {
			continue
		}
		if r.g.locks > 0 && g.locks > 0 {
			continue
		}
		// initialise-then-spawn: r.g touched before creating (an ancestor of) g
		if s.isAncestor(r.g, g) {
			c := g
			for c.parent >= 0 && c.parent < len(s.gs) && s.gs[c.parent] != r.g {
				c = s.gs[c.parent]
			}
			if r.step <= c.created {
				continue
			}
		}
		if s.violation == nil {
			kind := func(w bool) string {
				if w {
					return "write"
				}
				return "read"
			}
			s.violation = &Violation{Class: "data-race:" + name, Detail: fmt.Sprintf(
				"%s of one object is touched by two goroutines without the actor in between:\n  %s at %s by g%d[%s] (step %d)\n  %s at %s by g%d[%s] (step %d)\nIn the real program these accesses are unordered: a data race on actor-owned state.",
				name, kind(r.write), r.site, r.g.id, r.g.name, r.step, kind(write), site, g.id, g.name, s.steps)}
		}
		return
	}
	// keep one record per (goroutine, kind); prefer the earliest
	for _, r := range recs {
		if r.g == g && r.write == write {
			return
		}
	}
	s.touches[k] = append(recs, now)
}
