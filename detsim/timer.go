package detsim

import (
	"container/heap"
	"fmt"
	"strings"
	"time"
)

var sprintf = fmt.Sprintf

// Timer replaces time.Timer in instrumented code.  Channel semantics follow
// Go <= 1.22 by default (buffered channel of 1; Stop/Reset never drain), which
// is what a module with "go 1.18" in go.mod gets from any toolchain; with
// Config.NewTimers Stop/Reset also discard a pending tick (Go >= 1.23).
type Timer struct {
	C      <-chan time.Time
	c      chan time.Time
	rt     *time.Timer // pass-through
	s      *Sim
	when   int64
	seq    uint64
	active bool
	fn     func()
	site   string
	idx    int
	tick   *Ticker
	noStall bool // harness deadline: the stall strategy never jumps the clock over it
}

type timerHeap []*Timer

func (h timerHeap) Len() int { return len(h) }
func (h timerHeap) Less(i, j int) bool {
	if h[i].when != h[j].when {
		return h[i].when < h[j].when
	}
	return h[i].seq < h[j].seq
}
func (h timerHeap) Swap(i, j int)       { h[i], h[j] = h[j], h[i]; h[i].idx = i; h[j].idx = j }
func (h *timerHeap) Push(x interface{}) { t := x.(*Timer); t.idx = len(*h); *h = append(*h, t) }
func (h *timerHeap) Pop() interface{} {
	old := *h
	n := len(old)
	t := old[n-1]
	*h = old[:n-1]
	t.idx = -1
	return t
}

func (s *Sim) arm(t *Timer, d time.Duration) {
	if d < 0 {
		d = 0
	}
	s.seq++
	t.when = s.now + int64(d)
	t.seq = s.seq
	t.active = true
	heap.Push((*timerHeap)(&s.timers), t)
}

func (s *Sim) disarm(t *Timer) {
	if t.active && t.idx >= 0 {
		heap.Remove((*timerHeap)(&s.timers), t.idx)
	}
	t.active = false
}

// fire runs in scheduler context (nobody else is running).
func (s *Sim) fire(t *Timer) {
	s.disarm(t)
	s.timerFires++
	s.traceHash = fnvInt(fnvMix(s.traceHash, "timer"), int(t.seq))
	if s.cfg.Trace {
		s.trace = append(s.trace, sprintf("%d t=%v timer fires (armed@%s)", s.steps, time.Duration(s.now), t.site))
	}
	if t.fn != nil {
		g := s.newG("timerfunc@"+t.site, t.site, nil)
		g.parent = -2
		s.start(g, t.fn)
		return
	}
	select {
	case t.c <- epoch.Add(time.Duration(s.now)):
		s.dirty = append(s.dirty, chanPtr(t.c))
	default:
	}
	if t.tick != nil && !t.tick.stop {
		s.arm(t, t.tick.d)
	}
}

var epoch = time.Unix(1600000000, 0).UTC()

func NewTimer(d time.Duration) *Timer { return NewTimerAt("?", d) }

func NewTimerAt(site string, d time.Duration) *Timer {
	s := cur
	if s == nil {
		rt := time.NewTimer(d)
		return &Timer{C: rt.C, rt: rt}
	}
	s.me()
	c := make(chan time.Time, 1)
	t := &Timer{C: c, c: c, s: s, site: site, noStall: strings.HasPrefix(site, "deadline")}
	s.arm(t, d)
	return t
}

func AfterFunc(d time.Duration, f func()) *Timer { return AfterFuncAt("?", d, f) }

func AfterFuncAt(site string, d time.Duration, f func()) *Timer {
	s := cur
	if s == nil {
		return &Timer{rt: time.AfterFunc(d, f)}
	}
	s.me()
	t := &Timer{s: s, fn: f, site: site}
	s.arm(t, d)
	return t
}

func (t *Timer) Stop() bool {
	if t.rt != nil {
		return t.rt.Stop()
	}
	s := t.s
	if cur != s || s.aborting {
		return false
	}
	was := t.active
	s.disarm(t)
	if s.cfg.NewTimers && t.c != nil {
		select {
		case <-t.c:
			s.dirty = append(s.dirty, chanPtr(t.c))
		default:
		}
	}
	return was
}

func (t *Timer) Reset(d time.Duration) bool {
	if t.rt != nil {
		return t.rt.Reset(d)
	}
	s := t.s
	if cur != s || s.aborting {
		return false
	}
	was := t.active
	s.disarm(t)
	if s.cfg.NewTimers && t.c != nil {
		select {
		case <-t.c:
			s.dirty = append(s.dirty, chanPtr(t.c))
		default:
		}
	}
	s.arm(t, d)
	return was
}

func After(d time.Duration) <-chan time.Time { return NewTimerAt("After", d).C }

func AfterAt(site string, d time.Duration) <-chan time.Time { return NewTimerAt(site, d).C }

func Sleep(d time.Duration) { SleepAt("Sleep", d) }

func SleepAt(site string, d time.Duration) {
	if cur == nil {
		time.Sleep(d)
		return
	}
	t := NewTimerAt(site, d)
	Recv(site, t.C)
}

func Now() time.Time {
	if s := cur; s != nil {
		return epoch.Add(time.Duration(s.now))
	}
	return time.Now()
}

func Since(t time.Time) time.Duration { return Now().Sub(t) }
func Until(t time.Time) time.Duration { return t.Sub(Now()) }

// Elapsed returns simulated time since the start of the run.
func Elapsed() time.Duration {
	if s := cur; s != nil {
		return time.Duration(s.now)
	}
	return 0
}

// Ticker replaces time.Ticker.
type Ticker struct {
	C    <-chan time.Time
	c    chan time.Time
	rt   *time.Ticker
	s    *Sim
	d    time.Duration
	t    *Timer
	stop bool
}

func NewTicker(d time.Duration) *Ticker {
	s := cur
	if s == nil {
		rt := time.NewTicker(d)
		return &Ticker{C: rt.C, rt: rt}
	}
	s.me()
	c := make(chan time.Time, 1)
	tk := &Ticker{C: c, c: c, s: s, d: d}
	tk.rearm()
	return tk
}

func (tk *Ticker) rearm() {
	s := tk.s
	t := &Timer{s: s, site: "ticker"}
	t.c = tk.c
	tk.t = t
	// a ticker tick re-arms itself: modelled as a timer whose fire hook re-arms
	t.fn = nil
	s.arm(t, tk.d)
	t.tick = tk
}

func (tk *Ticker) Stop() {
	if tk.rt != nil {
		tk.rt.Stop()
		return
	}
	if cur != tk.s {
		return
	}
	tk.stop = true
	tk.s.disarm(tk.t)
}

func (tk *Ticker) Reset(d time.Duration) {
	if tk.rt != nil {
		tk.rt.Reset(d)
		return
	}
	if cur != tk.s {
		return
	}
	tk.s.disarm(tk.t)
	tk.d = d
	tk.stop = false
	tk.rearm()
}

func Tick(d time.Duration) <-chan time.Time { return NewTicker(d).C }
