package detsim

import (
	"context"
	"runtime"
	"testing"
	"time"
)

// hand-instrumented helpers, mirroring what kcinstr generates
func send[T any](site string, c chan T, v T) {
	t := Select(site, false, S(c))
	select {
	case c <- v:
		t.Done()
	}
}

func TestRendezvousAndBuffered(t *testing.T) {
	for seed := int64(0); seed < 200; seed++ {
		var got []int
		res := Run(Config{Seed: seed}, func() {
			u := make(chan int)
			b := make(chan int, 2)
			done := make(chan struct{})
			Go("t", "producer", func() {
				for i := 0; i < 5; i++ {
					send("p.u", u, i)
				}
				Close("p.close", u)
			})
			Go("t", "relay", func() {
				for {
					v, ok := Recv2("r.u", u)
					if !ok {
						Close("r.close", b)
						return
					}
					send("r.b", b, v*10)
				}
			})
			Go("t", "consumer", func() {
				for {
					v, ok := Recv2("c.b", b)
					if !ok {
						Close("c.done", done)
						return
					}
					got = append(got, v)
				}
			})
			Recv("root.done", done)
		})
		if res.Violation != nil || res.Infra != "" {
			t.Fatalf("seed %d: %+v %s", seed, res.Violation, res.Infra)
		}
		if len(got) != 5 || got[0] != 0 || got[4] != 40 {
			t.Fatalf("seed %d got %v", seed, got)
		}
	}
}

func TestSelectDefaultNilClosedCtx(t *testing.T) {
	for seed := int64(0); seed < 100; seed++ {
		res := Run(Config{Seed: seed}, func() {
			var nilch chan int
			c := make(chan int, 1)
			// default taken when nothing enabled
			c0, c1 := nilch, c
			tk := Select("s1", true, R(c0), R(c1))
			if tk.I != 2 {
				Fail("bad", "default expected, got %d", tk.I)
			}
			send("s", c, 7)
			tk = Select("s2", true, R(c0), R(c1))
			if tk.I != 1 {
				Fail("bad", "case 1 expected, got %d", tk.I)
			}
			<-c1
			tk.Done()
			// context cancellation closes a channel outside the simulator
			ctx, cancel := context.WithCancel(context.Background())
			child, cancel2 := context.WithCancel(ctx)
			defer cancel2()
			fin := make(chan struct{})
			Go("t", "waiter", func() {
				Recv("w.ctx", child.Done())
				Close("w.fin", fin)
			})
			Settle()
			cancel()
			Recv("root.fin", fin)
			// send on closed channel panics like Go
		})
		if res.Violation != nil || res.Infra != "" {
			t.Fatalf("seed %d: %+v %s", seed, res.Violation, res.Infra)
		}
	}
}

func TestPanicSendOnClosed(t *testing.T) {
	res := Run(Config{Seed: 1}, func() {
		c := make(chan int)
		Close("x", c)
		send("s", c, 1)
	})
	if res.Violation == nil || res.Violation.Class[:6] != "panic:" {
		t.Fatalf("expected panic violation, got %+v", res.Violation)
	}
}

func TestTimersAndClock(t *testing.T) {
	res := Run(Config{Seed: 3}, func() {
		t0 := Now()
		Sleep(time.Minute)
		if Since(t0) != time.Minute {
			Fail("bad", "clock %v", Since(t0))
		}
		tm := NewTimer(time.Second)
		Sleep(2 * time.Second)
		if tm.Stop() {
			Fail("bad", "Stop of fired timer returned true")
		}
		if len(tm.C) != 1 {
			Fail("bad", "old semantics: stale tick expected in channel")
		}
		<-tm.C
		tm.Reset(time.Second)
		fired := make(chan struct{})
		AfterFunc(500*time.Millisecond, func() { Close("af", fired) })
		tk := Select("sel", false, R(tm.C), R(fired))
		if tk.I != 1 {
			Fail("bad", "AfterFunc should fire first, got %d", tk.I)
		}
		<-fired
		tk.Done()
		if Elapsed() != time.Minute+2*time.Second+500*time.Millisecond {
			Fail("bad", "elapsed %v", Elapsed())
		}
	})
	if res.Violation != nil || res.Infra != "" {
		t.Fatalf("%+v %s", res.Violation, res.Infra)
	}
}

func TestWedgeAndLeakAbort(t *testing.T) {
	before := runtime.NumGoroutine()
	for i := 0; i < 50; i++ {
		res := Run(Config{Seed: int64(i)}, func() {
			c := make(chan int)
			for j := 0; j < 5; j++ {
				Go("t", "leaker", func() {
					defer func() {
						// deferred code that itself performs simulated ops
						Recv("leak.defer", c)
					}()
					defer Close("leak.close", make(chan int))
					Recv("leak.recv", c)
				})
			}
			Settle()
		})
		if res.Violation != nil || res.Infra != "" {
			t.Fatalf("%+v %s", res.Violation, res.Infra)
		}
	}
	time.Sleep(50 * time.Millisecond)
	after := runtime.NumGoroutine()
	if after > before+2 {
		t.Fatalf("goroutines leaked across runs: %d -> %d", before, after)
	}
	res := Run(Config{Seed: 1}, func() {
		c := make(chan int)
		Recv("root.block", c)
	})
	if res.Violation == nil || res.Violation.Class != "wedge" {
		t.Fatalf("expected wedge, got %+v", res.Violation)
	}
}

func scenario() {
	a := make(chan int)
	b := make(chan int, 3)
	fin := make(chan int, 8)
	for i := 0; i < 4; i++ {
		i := i
		Go("t", "w", func() {
			for k := 0; k < 5; k++ {
				tk := Select("w.sel", false, S(a), S(b))
				ca, cb := a, b
				if tk.I == 0 {
					cb = nil
				} else {
					ca = nil
				}
				select {
				case ca <- i:
					tk.Done()
				case cb <- i:
					tk.Done()
				}
				if Choose("coin", 3) == 0 {
					Sleep(time.Duration(i+1) * time.Millisecond)
				}
			}
			send("w.fin", fin, i)
		})
	}
	n := 0
	for n < 4 {
		tk := Select("r.sel", false, R(a), R(b), R(fin))
		ca, cb, cf := a, b, fin
		switch tk.I {
		case 0:
			cb, cf = nil, nil
		case 1:
			ca, cf = nil, nil
		case 2:
			ca, cb = nil, nil
		}
		select {
		case v := <-ca:
			tk.Done()
			Note("a%d", v)
		case v := <-cb:
			tk.Done()
			Note("b%d", v)
		case <-cf:
			tk.Done()
			n++
		}
	}
}

func TestDeterminismAndReplay(t *testing.T) {
	hashes := map[uint64]bool{}
	for seed := int64(0); seed < 100; seed++ {
		for _, st := range []Strategy{{Kind: "uniform"}, {Kind: "pct", PCTDepth: 2}, {Kind: "starve", StarveName: "w", StarveK: 5}, {Kind: "uniform", StallPermille: 100}} {
			r1 := Run(Config{Seed: seed, Strategy: st, EstSteps: 100}, scenario)
			r2 := Run(Config{Seed: seed, Strategy: st, EstSteps: 100}, scenario)
			if r1.Violation != nil || r1.Infra != "" {
				t.Fatalf("%+v %s", r1.Violation, r1.Infra)
			}
			if r1.TraceHash != r2.TraceHash || r1.Steps != r2.Steps {
				t.Fatalf("seed %d %v: same seed, different runs", seed, st)
			}
			r3 := Run(Config{Replay: true, Tape: r1.Tape, Strategy: st}, scenario)
			if r3.TraceHash != r1.TraceHash {
				t.Fatalf("seed %d %v: replay from tape differs (steps %d vs %d)", seed, st, r1.Steps, r3.Steps)
			}
			hashes[r1.TraceHash] = true
		}
		// any tape is a valid run
		r4 := Run(Config{Replay: true, Tape: []int{5, 1, -1, 3, 99, 2, 2, 2}}, scenario)
		if r4.Violation != nil || r4.Infra != "" {
			t.Fatalf("%+v %s", r4.Violation, r4.Infra)
		}
	}
	if len(hashes) < 300 {
		t.Fatalf("too few distinct schedules: %d", len(hashes))
	}
}
