package detsim

import "sync"

// Mutex replaces sync.Mutex in instrumented code: a 1-slot channel operated
// through the simulator, so that a goroutine holding the lock across a park
// cannot deadlock the scheduler.  In pass-through mode it is a real mutex.
type Mutex struct {
	once sync.Once
	ch   chan struct{}
	real sync.Mutex
	sim  *Sim
}

func (m *Mutex) init() {
	m.once.Do(func() { m.ch = make(chan struct{}, 1); m.sim = cur })
}

func (m *Mutex) Lock() {
	if cur == nil {
		m.real.Lock()
		return
	}
	m.init()
	t := Select("mutex.Lock", false, S(m.ch))
	m.ch <- struct{}{}
	t.Done()
}

func (m *Mutex) TryLock() bool {
	if cur == nil {
		return m.real.TryLock()
	}
	m.init()
	select {
	case m.ch <- struct{}{}:
		return true
	default:
		return false
	}
}

func (m *Mutex) Unlock() {
	if cur == nil {
		m.real.Unlock()
		return
	}
	m.init()
	select {
	case <-m.ch:
	default:
		panic("sync: unlock of unlocked mutex")
	}
}

// RWMutex is modelled as an exclusive lock (sound for safety properties:
// every execution of the exclusive model is an execution of the real one
// except for reader/reader overlap, which cannot change state).
type RWMutex struct{ Mutex }

func (m *RWMutex) RLock()         { m.Lock() }
func (m *RWMutex) RUnlock()       { m.Unlock() }
func (m *RWMutex) TryRLock() bool { return m.TryLock() }
func (m *RWMutex) RLocker() sync.Locker {
	return (*rlocker)(m)
}

type rlocker RWMutex

func (r *rlocker) Lock()   { (*RWMutex)(r).RLock() }
func (r *rlocker) Unlock() { (*RWMutex)(r).RUnlock() }

// WaitGroup replaces sync.WaitGroup.
type WaitGroup struct {
	real sync.WaitGroup
	n    int
	ch   chan struct{}
}

func (w *WaitGroup) Add(d int) {
	if cur == nil {
		w.real.Add(d)
		return
	}
	w.n += d
	if w.n < 0 {
		panic("sync: negative WaitGroup counter")
	}
	if w.n == 0 && w.ch != nil {
		Close("wg.Done", w.ch)
		w.ch = nil
	}
}

func (w *WaitGroup) Done() { w.Add(-1) }

func (w *WaitGroup) Wait() {
	if cur == nil {
		w.real.Wait()
		return
	}
	if w.n == 0 {
		return
	}
	if w.ch == nil {
		w.ch = make(chan struct{})
	}
	Recv("wg.Wait", w.ch)
}

// Once replaces sync.Once.
type Once struct {
	real sync.Once
	m    Mutex
	done bool
}

func (o *Once) Do(f func()) {
	if cur == nil {
		o.real.Do(f)
		return
	}
	if o.done {
		return
	}
	o.m.Lock()
	defer o.m.Unlock()
	if !o.done {
		defer func() { o.done = true }()
		f()
	}
}
