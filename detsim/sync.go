package detsim

import "sync"

// Mutex replaces sync.Mutex in instrumented code: a 1-slot channel operated
// through the simulator, so that a goroutine holding the lock across a park
// cannot deadlock the scheduler.  In pass-through mode it is a real mutex.
type Mutex struct {
	once sync.Once
	ch   chan struct{}
	real sync.Mutex
	sim  *Sim
}

func (m *Mutex) init() {
	m.once.Do(func() { m.ch = make(chan struct{}, 1); m.sim = cur })
}

func (m *Mutex) Lock() {
	if cur == nil {
		m.real.Lock()
		return
	}
	m.init()
	t := Select("mutex.Lock", false, S(m.ch))
	m.ch <- struct{}{}
	t.Done()
	if t.g != nil {
		t.g.locks++
	}
}

func (m *Mutex) TryLock() bool {
	if cur == nil {
		return m.real.TryLock()
	}
	m.init()
	select {
	case m.ch <- struct{}{}:
		return true
	default:
		return false
	}
}

func (m *Mutex) Unlock() {
	if cur == nil {
		m.real.Unlock()
		return
	}
	m.init()
	select {
	case <-m.ch:
	default:
		panic("sync: unlock of unlocked mutex")
	}
	if s := cur; s != nil {
		s.dirty = append(s.dirty, chanPtr(m.ch)) // waiters in Lock() must be looked at again
		if s.current != nil && s.current.locks > 0 {
			s.current.locks--
		}
	}
}

// RWMutex is modelled as an exclusive lock (sound for safety properties:
// every execution of the exclusive model is an execution of the real one
// except for reader/reader overlap, which cannot change state).
type RWMutex struct{ Mutex }

func (m *RWMutex) RLock()         { m.Lock() }
func (m *RWMutex) RUnlock()       { m.Unlock() }
func (m *RWMutex) TryRLock() bool { return m.TryLock() }
func (m *RWMutex) RLocker() sync.Locker {
	return (*rlocker)(m)
}

type rlocker RWMutex

func (r *rlocker) Lock()   { (*RWMutex)(r).RLock() }
func (r *rlocker) Unlock() { (*RWMutex)(r).RUnlock() }

// WaitGroup replaces sync.WaitGroup.
type WaitGroup struct {
	real sync.WaitGroup
	n    int
	ch   chan struct{}
}

func (w *WaitGroup) Add(d int) {
	if cur == nil {
		w.real.Add(d)
		return
	}
	w.n += d
	if w.n < 0 {
		panic("sync: negative WaitGroup counter")
	}
	if w.n == 0 && w.ch != nil {
		Close("wg.Done", w.ch)
		w.ch = nil
	}
}

func (w *WaitGroup) Done() { w.Add(-1) }

func (w *WaitGroup) Wait() {
	if cur == nil {
		w.real.Wait()
		return
	}
	if w.n == 0 {
		return
	}
	if w.ch == nil {
		w.ch = make(chan struct{})
	}
	Recv("wg.Wait", w.ch)
}

// Once replaces sync.Once.
type Once struct {
	real sync.Once
	m    Mutex
	done bool
}

func (o *Once) Do(f func()) {
	if cur == nil {
		o.real.Do(f)
		return
	}
	if o.done {
		return
	}
	o.m.Lock()
	defer o.m.Unlock()
	if !o.done {
		defer func() { o.done = true }()
		f()
	}
}

// Cond replaces sync.Cond.
type Cond struct {
	L       sync.Locker
	real    *sync.Cond
	waiters []chan struct{}
}

func NewCond(l sync.Locker) *Cond { return &Cond{L: l, real: sync.NewCond(l)} }

func (c *Cond) Wait() {
	if cur == nil {
		c.real.Wait()
		return
	}
	ch := make(chan struct{})
	c.waiters = append(c.waiters, ch)
	c.L.Unlock()
	Recv("cond.Wait", ch)
	c.L.Lock()
}

func (c *Cond) Signal() {
	if cur == nil {
		c.real.Signal()
		return
	}
	if len(c.waiters) > 0 {
		ch := c.waiters[0]
		c.waiters = c.waiters[1:]
		Close("cond.Signal", ch)
	}
}

func (c *Cond) Broadcast() {
	if cur == nil {
		c.real.Broadcast()
		return
	}
	for _, ch := range c.waiters {
		Close("cond.Broadcast", ch)
	}
	c.waiters = nil
}

// Map replaces sync.Map: under the simulator only one goroutine runs at a
// time, so a plain map with deterministic (insertion) iteration order suffices.
type Map struct {
	real sync.Map
	m    map[interface{}]interface{}
	keys []interface{}
}

func (m *Map) Load(k interface{}) (interface{}, bool) {
	if cur == nil {
		return m.real.Load(k)
	}
	v, ok := m.m[k]
	return v, ok
}

func (m *Map) Store(k, v interface{}) {
	if cur == nil {
		m.real.Store(k, v)
		return
	}
	if m.m == nil {
		m.m = map[interface{}]interface{}{}
	}
	if _, ok := m.m[k]; !ok {
		m.keys = append(m.keys, k)
	}
	m.m[k] = v
}

func (m *Map) LoadOrStore(k, v interface{}) (interface{}, bool) {
	if cur == nil {
		return m.real.LoadOrStore(k, v)
	}
	if old, ok := m.m[k]; ok {
		return old, true
	}
	m.Store(k, v)
	return v, false
}

func (m *Map) LoadAndDelete(k interface{}) (interface{}, bool) {
	if cur == nil {
		return m.real.LoadAndDelete(k)
	}
	v, ok := m.m[k]
	m.Delete(k)
	return v, ok
}

func (m *Map) Delete(k interface{}) {
	if cur == nil {
		m.real.Delete(k)
		return
	}
	if _, ok := m.m[k]; ok {
		delete(m.m, k)
		for i, x := range m.keys {
			if x == k {
				m.keys = append(m.keys[:i:i], m.keys[i+1:]...)
				break
			}
		}
	}
}

func (m *Map) Range(f func(k, v interface{}) bool) {
	if cur == nil {
		m.real.Range(f)
		return
	}
	for _, k := range append([]interface{}(nil), m.keys...) {
		if v, ok := m.m[k]; ok {
			if !f(k, v) {
				return
			}
		}
	}
}
