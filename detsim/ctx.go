package detsim

import (
	"context"
	"fmt"
	"runtime"
	"sort"
	"time"
)

// WithCancel replaces context.WithCancel in instrumented code: same contexts,
// plus a register of derived contexts whose cancel function has not been
// called yet.  A context that is still alive and un-cancelled when its creator
// has shut down is a leak in the parent's children set (and, below a parent
// that is not one of the standard library's own types, a leaked goroutine).
func WithCancel(parent context.Context) (context.Context, context.CancelFunc) {
	ctx, cancel := context.WithCancel(parent)
	if cur == nil {
		return ctx, cancel
	}
	_, file, line, _ := runtime.Caller(1)
	s := cur
	s.ctxSeq++
	id := s.ctxSeq
	if s.openCtx == nil {
		s.openCtx = map[int]openCtx{}
	}
	s.openCtx[id] = openCtx{site: fmt.Sprintf("%s:%d", file, line), ctx: ctx}
	return ctx, func() {
		if cur == s {
			delete(s.openCtx, id)
		}
		cancel()
	}
}

type openCtx struct {
	site string
	ctx  context.Context
}

// OpenContexts lists the creation sites of derived contexts that are neither
// cancelled (directly or through their parent) nor released.
func OpenContexts() []string {
	var out []string
	if cur == nil {
		return nil
	}
	for _, c := range cur.openCtx {
		if c.ctx.Err() == nil {
			out = append(out, c.site)
		}
	}
	sort.Strings(out)
	return out
}

// deadlineCtx makes a context whose deadline lives on the simulated clock.
type deadlineCtx struct {
	context.Context
	deadline time.Time
}

func (c *deadlineCtx) Deadline() (time.Time, bool) { return c.deadline, true }

func (c *deadlineCtx) Err() error {
	if err := c.Context.Err(); err != nil {
		if context.Cause(c.Context) == context.DeadlineExceeded {
			return context.DeadlineExceeded
		}
		return err
	}
	return nil
}

// WithTimeout replaces context.WithTimeout in instrumented code.
func WithTimeout(parent context.Context, d time.Duration) (context.Context, context.CancelFunc) {
	if cur == nil {
		return context.WithTimeout(parent, d)
	}
	return WithDeadline(parent, Now().Add(d))
}

// WithDeadline replaces context.WithDeadline in instrumented code.
func WithDeadline(parent context.Context, dl time.Time) (context.Context, context.CancelFunc) {
	if cur == nil {
		return context.WithDeadline(parent, dl)
	}
	ctx, cancel := context.WithCancelCause(parent)
	t := AfterFuncAt("ctx-deadline", dl.Sub(Now()), func() { cancel(context.DeadlineExceeded) })
	return &deadlineCtx{Context: ctx, deadline: dl}, func() {
		t.Stop()
		cancel(context.Canceled)
	}
}
