package detsim

import (
	"context"
	"time"
)

// deadlineCtx makes a context whose deadline lives on the simulated clock.
type deadlineCtx struct {
	context.Context
	deadline time.Time
}

func (c *deadlineCtx) Deadline() (time.Time, bool) { return c.deadline, true }

func (c *deadlineCtx) Err() error {
	if err := c.Context.Err(); err != nil {
		if context.Cause(c.Context) == context.DeadlineExceeded {
			return context.DeadlineExceeded
		}
		return err
	}
	return nil
}

// WithTimeout replaces context.WithTimeout in instrumented code.
func WithTimeout(parent context.Context, d time.Duration) (context.Context, context.CancelFunc) {
	if cur == nil {
		return context.WithTimeout(parent, d)
	}
	return WithDeadline(parent, Now().Add(d))
}

// WithDeadline replaces context.WithDeadline in instrumented code.
func WithDeadline(parent context.Context, dl time.Time) (context.Context, context.CancelFunc) {
	if cur == nil {
		return context.WithDeadline(parent, dl)
	}
	ctx, cancel := context.WithCancelCause(parent)
	t := AfterFuncAt("ctx-deadline", dl.Sub(Now()), func() { cancel(context.DeadlineExceeded) })
	return &deadlineCtx{Context: ctx, deadline: dl}, func() {
		t.Stop()
		cancel(context.Canceled)
	}
}
