package detsim

import (
	"fmt"
	"reflect"
	"sort"
	"unsafe"
)

// NoteKey gives pointer-like map keys a deterministic identity (insertion
// order), used by MapKeys to put keys into a canonical order before the
// simulator permutes them.
func NoteKey(k interface{}) {
	s := cur
	if s == nil {
		return
	}
	if p, ok := ptrOf(reflect.ValueOf(k)); ok {
		if _, seen := s.ptrIDs[p]; !seen {
			s.ptrIDs[p] = len(s.ptrIDs) + 1
		}
	}
}

func ptrOf(v reflect.Value) (unsafe.Pointer, bool) {
	for v.IsValid() && v.Kind() == reflect.Interface {
		v = v.Elem()
	}
	if !v.IsValid() {
		return nil, false
	}
	switch v.Kind() {
	case reflect.Ptr, reflect.Chan, reflect.UnsafePointer, reflect.Func, reflect.Map:
		return v.UnsafePointer(), true
	}
	return nil, false
}

func (s *Sim) keyString(v reflect.Value) string {
	for v.IsValid() && v.Kind() == reflect.Interface {
		v = v.Elem()
	}
	if !v.IsValid() {
		return "<nil>"
	}
	switch v.Kind() {
	case reflect.Ptr, reflect.Chan, reflect.UnsafePointer, reflect.Func, reflect.Map:
		p := v.UnsafePointer()
		if p == nil {
			return "p0"
		}
		id, ok := s.ptrIDs[p]
		if !ok {
			// a pointer key never announced by NoteKey: its order would depend
			// on the allocator.  Flag it; the run is not trustworthy.
			if s.infra == "" {
				s.infra = fmt.Sprintf("detsim: map key of type %s was never announced with NoteKey (nondeterministic map order)", v.Type())
			}
			id = -1
		}
		return fmt.Sprintf("p%08d", id)
	case reflect.Struct:
		out := v.Type().String() + "{"
		for i := 0; i < v.NumField(); i++ {
			out += s.keyString(v.Field(i)) + ","
		}
		return out + "}"
	case reflect.Array:
		out := "["
		for i := 0; i < v.Len(); i++ {
			out += s.keyString(v.Index(i)) + ","
		}
		return out + "]"
	case reflect.String:
		return "s" + v.String()
	case reflect.Int, reflect.Int8, reflect.Int16, reflect.Int32, reflect.Int64:
		return fmt.Sprintf("i%020d", v.Int()+(1<<62))
	case reflect.Uint, reflect.Uint8, reflect.Uint16, reflect.Uint32, reflect.Uint64, reflect.Uintptr:
		return fmt.Sprintf("u%020d", v.Uint())
	}
	return fmt.Sprintf("%v", v.Interface())
}

// MapKeys returns the keys of m: canonical order, then permuted by the
// simulator (a recorded decision) when Config.PermuteMaps is set.  In
// pass-through mode it is Go's own order.
func MapKeys[M ~map[K]V, K comparable, V any](site string, m M) []K {
	keys := make([]K, 0, len(m))
	for k := range m {
		keys = append(keys, k)
	}
	s := cur
	if s == nil || len(keys) < 2 {
		return keys
	}
	if s.aborting {
		return keys
	}
	strs := make([]string, len(keys))
	for i, k := range keys {
		strs[i] = s.keyString(reflect.ValueOf(&k).Elem())
	}
	idx := make([]int, len(keys))
	for i := range idx {
		idx[i] = i
	}
	sort.SliceStable(idx, func(a, b int) bool { return strs[idx[a]] < strs[idx[b]] })
	out := make([]K, len(keys))
	for i, j := range idx {
		out[i] = keys[j]
	}
	if s.cfg.PermuteMaps {
		if len(out) <= 12 {
			for i := 0; i < len(out)-1; i++ {
				j := i + s.choose("map", len(out)-i, 0)
				out[i], out[j] = out[j], out[i]
			}
		} else {
			// large maps: a full permutation would cost one recorded decision per
			// element; a rotation and an optional reversal still vary the order
			// of every pair of keys across runs
			r := s.choose("maprot", len(out), 0)
			rot := make([]K, 0, len(out))
			rot = append(rot, out[r:]...)
			rot = append(rot, out[:r]...)
			if s.choose("maprev", 2, 0) == 1 {
				for i, j := 0, len(rot)-1; i < j; i, j = i+1, j-1 {
					rot[i], rot[j] = rot[j], rot[i]
				}
			}
			out = rot
		}
	}
	return out
}

// MapKeysSorted is MapKeys without the simulator-chosen permutation (used for
// harness code, whose map order must be deterministic but is not a decision).
func MapKeysSorted[M ~map[K]V, K comparable, V any](site string, m M) []K {
	s := cur
	if s == nil || !s.cfg.PermuteMaps {
		return MapKeys(site, m)
	}
	s.cfg.PermuteMaps = false
	defer func() { s.cfg.PermuteMaps = true }()
	return MapKeys(site, m)
}
