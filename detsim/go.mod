module detsim

go 1.21
