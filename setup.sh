#!/bin/bash
# setup: build the framework tools from files on disk only (offline).
set -e
cd "$(dirname "$0")"
export GOFLAGS=-mod=mod GOPROXY=off GOSUMDB=off GOTOOLCHAIN=local
mkdir -p bin evidence replays
( cd kcinstr && go build -o ../bin/kcinstr . )
( cd cmd/check && go build -o ../../bin/check . )
( cd detsim && go vet . )
echo "setup: ok"
