#!/usr/bin/env python3
import json,sys
s=json.load(open(sys.argv[1]))
n=int(sys.argv[2]) if len(sys.argv)>2 else 40
print(json.dumps(s['scenario'])); print(s['class']); print(s['detail'][:3000]); print(s.get('shrink_stats'))
tr=[l for l in s['trace'] if 'case=-1' not in l and 'after-rend' not in l]
if len(sys.argv)>3: tr=[l for l in tr if ' | ' in l or 'timer' in l]
print('\n'.join(tr[-n:]))
