#!/usr/bin/env python3
# Regenerates MANIFEST.json from the table below (single source of truth for the registered checks).
import json, subprocess
claimed = {
 "C01": ("cache actor driven directly through the verif-tagged export hook: seeded operation sequences (sync/update/refilter with malformed versions, duplicates, empty lists) plus a one-step sweep of an 120-operation alphabet from sampled states; every List/Get compared with an executable reference cache; panics and wedges detected by the scheduler; since the seeded-defect waves also: versions shifted across the 64-bit range, cluster-scoped (no namespace) and concatenation-colliding keys, bulk populations of 70..200 objects with mass removals, long-lived caches (260..560 operations), GetObject with a stale caller-side copy, every returned slice destroyed after use",
         "reference model written from the statement (sequential upsert semantics; stale deletes and rejected-newer-then-accepted-older duplicates adopt the implementation's outcome); pure filter semantics trusted (C18)"),
 "C02": ("same runs as C01: the events returned by each mutation are replayed strictly (Create only if absent, Update only if strictly newer, Delete only if present) over the previous content and must give the new content; event multiset must equal the reference delta (minimality) except for lists with duplicate keys; same extensions as C01 (bulk, long-lived, 64-bit versions, special keys)",
         "as C01"),
 "C03": ("real controller over a simulated API server; histories of creates/updates/deletes, refresh periods 50ms..60s, list latencies up to 5 periods, fault plan (connect errors/hangs, stream closes, drops, duplicates, replays, status/bookmark/bad frames, dead watch), small buffers; oracles: dead-watch exactness per list, convergence after one relist once the server quiesces, healthy-watch equality at every quiescent point, subscriber mirror == cache, watch versions never invented; plus: server version counters starting right below powers of ten and far up the 64-bit range, log compaction (410 Gone as call error and as frame), stale frames replayed on an idle connection, bulk initial populations, many error values, builder setters in drawn order",
         "simulated API server models list/watch as kcache uses it; liveness judged in simulated time with starvation/stall switched off after faults stop"),
 "C04": ("relisting disabled (period 10000h), watch faults {server close mid/after burst/idle, connect errors, status and bookmark frames} at drawn positions of 1..60 writes, starvation of controller/watcher/session/pump; oracle: cache == server and subscriber mirror == cache within 1.5s (retry delay 1s) after the last fault, resume versions only from sent events, never regressing; plus: connect errors of several kinds (opaque, url.Error timeout, wrapped context.Canceled), a behind resume version refused once with 410, in-band 410 frames, long streams (hundreds of writes), version bases crossing a power of ten",
         "runs in which a watch buffer overflowed are outside the premise (bursts <= EventBufsiz/4) and are counted, not judged"),
}
claimed.update({
 "C05": ("Subscribe/Clone trees up to depth 3 with up to 8 leaves, late subscribers, <= 20 events in flight against a buffer of 100, logger/map-order/scheduling perturbed; oracles: each leaf's sequence is a suffix of the first witness's (same order, no duplicate, no omission), late subscribers miss nothing written after their creation returned, Cache().Get right after an event is never older than the event, strict replay mirrors; plus: up to 40 subscribers per publisher, siblings closed mid-stream, bulk populations, and (one run in ten) a server that keeps one live object per key, mutates it in place and re-sends the pointer",
         "healthy API server; event identity = (type, key, resourceVersion) with unique versions per write"),
 "C06": ("nested SubscribeWithFilter/SubscribeForFilter/CloneWithFilter/CloneForFilter trees (depth <= 3) with plain subscribers below, label-moving histories, 0..n Refilter calls per node racing with readiness, parent events and relists (per node serialised, since 'most recent filter' is only defined for ordered calls); at every quiescent point node cache == filter(parent cache) and mirror == cache; plus: random filter terms over every constructor of the filter package (nested, duplicated and reordered children), refilters racing with in-flight parent updates, small buffers, many-operations profile",
         "filters drawn from a 10-member family incl. separately constructed equal filters and a non-comparable FN filter; pure filter semantics trusted (C17/C18); after a logged buffer overflow filtered equality is not demanded"),
 "C07": ("scripted: ready filtered subscription (or subscriber below a filtered clone), quiescence, Refilter(f2), quiescence; all 100 ordered pairs of the filter family enumerated round-robin, third filter sampled (incl. A->B->A), optional parent change between refilters; events between the barriers must be exactly one Delete per cached object f2 rejects plus one Create per newly accepted parent object; the other half of the runs uses random terms over every filter constructor and near-miss pairs; one run in ten is a sequence of 6..40 refilters over a small pool of filters with drained parent changes in between",
         "as C06"),
 "C08": ("first list held by the fake server and released (or failed) as an explicit operation; operation orders over {release, Refilter(equal), Refilter(new), write, subscribe, settle} up to length 6 enumerated by run index; per-step invariants: no event queued on Events() while Ready() is open, Ready(node) implies Ready(parent), deferred nodes ready only after a Refilter was submitted, failed first list never ready; content read at the instant Ready is observed equals the filter over the (static) parent; the held first list fails in every failure kind in turn (errors of several values, list plus error, non-list, Status object, ...); monitor callbacks make API calls",
         "the content-at-readiness oracle applies to runs where the server is static and the node has no filtered ancestor (otherwise the parent itself moves)"),
 "C10": ("trees with stalled (never reading) and slow readers, filtered clones, monitors with blocking handlers; EventBufsiz 2..100; streams up to 5x the buffer delivered in bursts that healthy stages can absorb; healthy leaves keep strict mirrors (complete sequence), caches stay exact, what a stalled leaf finally drains is an in-order subsequence of a healthy sibling's sequence and at least min(published, buffer) long; plus: consumers closed mid-stream, refilters (multi-event batches) while consumers are stalled, stalled consumers that catch up by a few events at quiescent points and stall again (the count oracle replays the buffer over the witness sequence)",
         "starvation strategies are excluded here: a starved publisher overflows its own feed, which is not consumer isolation"),
 "C11": ("mixed trees (all six Subscribe*/Clone* kinds, monitors) up to depth 4 under traffic; one node (or the root via Close / context cancel) closed at a drawn position, synchronously or from a racing goroutine; Done() closed for exactly that subtree, readers of closed nodes see the closed Events() channel, survivors receive a later probe write and pass all cache/mirror checks; plus: API calls from inside monitor callbacks (close self / parent / root, list, subscribe), a churn profile (5..40 consumers coming and going below one publisher), handlers from one reused HandlerBuilder",
         "joins are exercised by C09"),
 "C12": ("shutdown-point sweep: Close / 3 concurrent Closes / context cancel injected at a scheduler step drawn over the run (one run in four enumerates early steps one by one), with watch connect hangs/errors, hanging lists and API calls racing; Close() and Done() within 1 ms of simulated time, zero live library goroutines afterwards (registry by creation site), API calls return ErrNotRunning, racing Subscribe/Clone yields a dead object; fault mix extended by status/bookmark/malformed/duplicate frames and in-band 410 frames; API calls from monitor callbacks",
         "premise honoured by the fake client: List/Watch return once their context is cancelled"),
 "C13": ("(period, latency/period in {0, .5, .95, 1.05, 2, 5}, starved lister/ticker/controller) grid on the simulated clock, both timer-channel semantics (Go <= 1.22 and >= 1.23); never two lists in flight, next list no earlier than 0.9 period after the previous returned, progress bound in stall-free runs, a further list within one cycle once perturbation stops, prompt clean Close at a drawn point of the cycle; one run in six scripts a failing k-th list (nine error values): the controller must fail-stop or keep relisting; long horizons (120..420 periods); the refresh period reaches the lister through builder setters called in a drawn order",
         "time bounds are judged with the stall move switched off"),
 "C14": ("list failure kind {error, non-list, list of non-objects, no Items, nil} x position k=1..5 enumerated by run index with subscriber trees attached: Done() closes, Error() non-nil and naming the cause, Ready() stays open for k=1, whole subtree down; watch failures of every kind and dead watches never stop the controller; deliberate Close() leaves Error() == nil; failure kinds now: opaque error, (empty typed list, err), (full list, err), url.Error timeout, url.Error canceled, bare context.Canceled / DeadlineExceeded, kcache.ErrNotRunning bare and wrapped, non-list, list of non-objects, no Items, Status object, nil",
         ""),
 "C15": ("cache actor with 1-2 writers (sync/update/refilter, unique versions) and 1-6 readers (List/Get, some scribbling on the returned slice); cache.go rebuilt with a preemption point before every statement; recorded invoke/return history (global event counter) checked with porcupine against the reference cache (10 s budget, Unknown never reported); one run in eight uses complete states of 9..1030 objects (readers must only see complete states, never go backwards); readers use List, Get and GetObject; one run in six cancels the cache's context at a random scheduler step (a failed write is 'applied or not' in a nondeterministic porcupine model, every read that still succeeds must linearize)",
         "also: an ownership tracker (kcinstr -owner) reports any mutable field of cache.go's structs touched by two goroutines without lock / initialise-then-spawn ordering as data-race:<field>; hardware reordering is outside a schedule-level simulator; full vector-clock happens-before was not built"),
 "C16": ("monitors on controllers, clones and filtered clones with handlers that sleep on the simulated clock or yield; Close of monitor/publisher/root incl. before readiness; OnInitialize first and at most once, no callback before the publisher is ready, never two callbacks at once, none after Done(), init list + callbacks replay to the publisher cache; monitors close themselves / their parent / the root, list and subscribe from inside their n-th callback; handlers from one reused HandlerBuilder; OnInitialize lists are destroyed by the handler",
         "replay tolerates the documented overlap between the initial List() and already queued events; typed monitors are covered by C20"),
})
claimed.update({
 "C09": ("two or three simulated API servers (source type, destination type, services for the double join), real typed controllers, every one of the eight generated joins, IngressPods and the ...With variants in turn (run index mod 9); histories where sources appear, change selector, move namespace and disappear while destinations change labels; join cache == {destination objects selected by the library's own selection function over the server's current sources} at quiescence, join ready only after both bases, mirror of the join's events == its cache, Close() of the result leaves the goroutine population of the long-lived bases exactly as before (1..20 create/close cycles), bases keep working; plus: a join context of its own that ends right after construction, an overrun profile (EventBufsiz 2..8, the join's monitor starved, bursts of 1..4 buffers on one source; expected selection computed from what the base controllers hold), bulk destinations, decisive ordering bursts, closing the destination base under a live join, 1..20 create/close cycles with a goroutine-population leak check",
         "the pure selection filters (PodsFilter/ServicesFilter) are trusted (C19); typed controllers use the library's fixed 1 min refresh period"),
 "C20": ("each of the 12 typed packages in turn (run index mod 12): one simulated API server of that kind, a typed controller and an untyped core controller side by side, the same script (tree of Subscribe*/Clone*/monitors, refilters, closes, writes) applied to both at quiescent points, foreign-typed objects in lists and watch frames in half of the runs; typed caches, event sequences (up to intra-batch order), monitor callbacks, readiness and lifecycle must equal the untyped ones restricted to the package's type; foreign objects never visible, never a nil callback; every fourth run exercises one of the eight generated joins (incl. the overrun profile); stalled typed subscribers with 2..5-slot buffers; two goroutines racing Refilter on one typed node followed by a sequential equal filter",
         "decided in part: textual/AST equality of generated files with their templates and the REST paths built by client.ForResource are static / pure request-construction properties outside deterministic simulation and are NOT claimed; joins are compared against each other by C09"),
})
pending = {}
na = {
 "C17": "pure function of its inputs (Equals/Accept over filter terms): no schedule, clock, fault or interleaving for a simulator to control; generating terms would be property-based testing, not simulation",
 "C18": "pure function of its inputs (Accept over filter terms and objects): nothing for deterministic simulation to decide",
 "C19": "pure function of its inputs (workload filters over objects): nothing for deterministic simulation to decide",
}
allp = ["C%02d" % i for i in range(1, 21)]
checks = []
for pid in allp:
    if pid in claimed:
        text, note = claimed[pid]
        checks.append({
            "property_id": pid,
            "quick_cmd": "./check %s --tier quick" % pid,
            "thorough_cmd": "./check %s --tier thorough" % pid,
            "evidence_file": "/verif/evidence/%s.json" % pid,
            "replay_cmd_template": "./check %s --replay {path}" % pid,
            "engine": "detsim",
            "level_claimed": {"category": "exploration", "text": text, "design_ref": "DESIGN.md section 5 (%s)" % pid},
            "level_note": note + "; sampling, not proof; instrumented copy of /repo (AST rewrite validated by the repo's own tests in pass-through mode)",
            "technique": "deterministic simulation with fault injection (seeded cooperative scheduler over an AST-instrumented copy, simulated clock and API server, tape replay + shrinking)",
        })
nalist = [{"property_id": p, "reason": r} for p, r in na.items()]
for p in allp:
    if p not in claimed and p not in na:
        nalist.append({"property_id": p, "reason": pending.get(p, "check under construction in this session: not claimed yet")})
commits = subprocess.run(["git", "-C", "/repo", "log", "--format=%h %s"], capture_output=True, text=True).stdout.splitlines()
hooks = [c.split()[0] for c in commits if c.split(" ", 1)[1].startswith("verif:")]
m = {
 "version": 1,
 "setup_cmd": "./setup.sh",
 "hooks": {
  "guard": "verif",
  "enable": "go build -tags verif (export hooks only, verif_export.go); all scheduler/clock/fault seams are inserted by /verif/bin/kcinstr into a scratch copy of /repo, never into /repo itself",
  "baseline_off_cmd": "cd /repo && GOFLAGS=-mod=mod GOPROXY=off GOSUMDB=off go test -vet=off -count=1 -timeout 25m ./...",
  "source_commits": hooks,
  "add_only": True,
 },
 "engines": [
  {"name": "detsim", "path": "/verif/detsim", "serves_properties": sorted(claimed), "kind_free_text": "cooperative deterministic scheduler runtime (select/chan/go/timer/rand/map-range/sync seams), discrete-event clock, strategies (uniform, PCT, starve, sticky, stall), decision tape, replay"},
  {"name": "kcinstr", "path": "/verif/kcinstr", "serves_properties": sorted(claimed), "kind_free_text": "go/ast + go/types instrumenter that rewrites a scratch copy of /repo, go-lifecycle and the harness to call detsim"},
  {"name": "world+scen", "path": "/verif/sim", "serves_properties": sorted(claimed), "kind_free_text": "simulated API server with fault injection, consumers, reference cache, mirrors, per-property scenario generators and oracles; worker with structural + tape shrinker"},
 ],
 "checks": checks,
 "not_applicable": nalist,
 "notes": "Exit codes: 0 held, 1 VIOLATION (with replay file), 2 infrastructure. Known findings: /verif/known_findings.json. Replays of the defects fixed in /repo: /verif/findings/.",
}
json.dump(m, open("/verif/MANIFEST.json", "w"), indent=1)
print("manifest: %d checks, %d not_applicable" % (len(checks), len(nalist)))
