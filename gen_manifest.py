#!/usr/bin/env python3
# Regenerates MANIFEST.json from the table below (single source of truth for the registered checks).
import json, subprocess
claimed = {
 "C01": ("cache actor driven directly through the verif-tagged export hook: seeded operation sequences (sync/update/refilter with malformed versions, duplicates, empty lists) plus a one-step sweep of an 120-operation alphabet from sampled states; every List/Get compared with an executable reference cache; panics and wedges detected by the scheduler",
         "reference model written from the statement (sequential upsert semantics; stale deletes and rejected-newer-then-accepted-older duplicates adopt the implementation's outcome); pure filter semantics trusted (C18)"),
 "C02": ("same runs as C01: the events returned by each mutation are replayed strictly (Create only if absent, Update only if strictly newer, Delete only if present) over the previous content and must give the new content; event multiset must equal the reference delta (minimality) except for lists with duplicate keys",
         "as C01"),
 "C03": ("real controller over a simulated API server; histories of creates/updates/deletes, refresh periods 50ms..60s, list latencies up to 5 periods, fault plan (connect errors/hangs, stream closes, drops, duplicates, replays, status/bookmark/bad frames, dead watch), small buffers; oracles: dead-watch exactness per list, convergence after one relist once the server quiesces, healthy-watch equality at every quiescent point, subscriber mirror == cache, watch versions never invented",
         "simulated API server models list/watch as kcache uses it; liveness judged in simulated time with starvation/stall switched off after faults stop"),
 "C04": ("relisting disabled (period 10000h), watch faults {server close mid/after burst/idle, connect errors, status and bookmark frames} at drawn positions of 1..60 writes, starvation of controller/watcher/session/pump; oracle: cache == server and subscriber mirror == cache within 1.5s (retry delay 1s) after the last fault, resume versions only from sent events, never regressing",
         "runs in which a watch buffer overflowed are outside the premise (bursts <= EventBufsiz/4) and are counted, not judged"),
}
pending = {}
na = {
 "C17": "pure function of its inputs (Equals/Accept over filter terms): no schedule, clock, fault or interleaving for a simulator to control; generating terms would be property-based testing, not simulation",
 "C18": "pure function of its inputs (Accept over filter terms and objects): nothing for deterministic simulation to decide",
 "C19": "pure function of its inputs (workload filters over objects): nothing for deterministic simulation to decide",
}
allp = ["C%02d" % i for i in range(1, 21)]
checks = []
for pid in allp:
    if pid in claimed:
        text, note = claimed[pid]
        checks.append({
            "property_id": pid,
            "quick_cmd": "./check %s --tier quick" % pid,
            "thorough_cmd": "./check %s --tier thorough" % pid,
            "evidence_file": "/verif/evidence/%s.json" % pid,
            "replay_cmd_template": "./check %s --replay {path}" % pid,
            "engine": "detsim",
            "level_claimed": {"category": "exploration", "text": text, "design_ref": "DESIGN.md section 5 (%s)" % pid},
            "level_note": note + "; sampling, not proof; instrumented copy of /repo (AST rewrite validated by the repo's own tests in pass-through mode)",
            "technique": "deterministic simulation with fault injection (seeded cooperative scheduler over an AST-instrumented copy, simulated clock and API server, tape replay + shrinking)",
        })
nalist = [{"property_id": p, "reason": r} for p, r in na.items()]
for p in allp:
    if p not in claimed and p not in na:
        nalist.append({"property_id": p, "reason": pending.get(p, "check under construction in this session: not claimed yet")})
commits = subprocess.run(["git", "-C", "/repo", "log", "--format=%h %s"], capture_output=True, text=True).stdout.splitlines()
hooks = [c.split()[0] for c in commits if c.split(" ", 1)[1].startswith("verif:")]
m = {
 "version": 1,
 "setup_cmd": "./setup.sh",
 "hooks": {
  "guard": "verif",
  "enable": "go build -tags verif (export hooks only, verif_export.go); all scheduler/clock/fault seams are inserted by /verif/bin/kcinstr into a scratch copy of /repo, never into /repo itself",
  "baseline_off_cmd": "cd /repo && GOFLAGS=-mod=mod GOPROXY=off GOSUMDB=off go test -vet=off -count=1 -timeout 25m ./...",
  "source_commits": hooks,
  "add_only": True,
 },
 "engines": [
  {"name": "detsim", "path": "/verif/detsim", "serves_properties": sorted(claimed), "kind_free_text": "cooperative deterministic scheduler runtime (select/chan/go/timer/rand/map-range/sync seams), discrete-event clock, strategies (uniform, PCT, starve, sticky, stall), decision tape, replay"},
  {"name": "kcinstr", "path": "/verif/kcinstr", "serves_properties": sorted(claimed), "kind_free_text": "go/ast + go/types instrumenter that rewrites a scratch copy of /repo, go-lifecycle and the harness to call detsim"},
  {"name": "world+scen", "path": "/verif/sim", "serves_properties": sorted(claimed), "kind_free_text": "simulated API server with fault injection, consumers, reference cache, mirrors, per-property scenario generators and oracles; worker with structural + tape shrinker"},
 ],
 "checks": checks,
 "not_applicable": nalist,
 "notes": "Exit codes: 0 held, 1 VIOLATION (with replay file), 2 infrastructure. Known findings: /verif/known_findings.json. Replays of the defects fixed in /repo: /verif/findings/.",
}
json.dump(m, open("/verif/MANIFEST.json", "w"), indent=1)
print("manifest: %d checks, %d not_applicable" % (len(checks), len(nalist)))
