#!/bin/bash
# build_sim.sh <scratch-dir> : copy /repo's working tree + go-lifecycle + the
# harness into <scratch-dir>, instrument everything with kcinstr, build the
# worker binary at <scratch-dir>/worker.  Exit 2 on any infrastructure problem.
set -u
S="$1"
REPO="${VERIF_REPO:-/repo}"
V="$(cd "$(dirname "$0")" && pwd)"
export GOFLAGS=-mod=mod GOPROXY=off GOSUMDB=off GOTOOLCHAIN=local GONOSUMDB=* GONOSUMCHECK=1 GOFLAGS=-mod=mod
fail() { echo "build_sim: INFRA: $*" >&2; exit 2; }
MODCACHE="$(go env GOMODCACHE)"
rm -rf "$S" && mkdir -p "$S" || fail "cannot create $S"
rsync -a --exclude .git --exclude _example "$REPO"/ "$S/kc/" || fail "copy repo"
LC="$MODCACHE/github.com/boz/go-lifecycle@v0.1.0"
[ -d "$LC" ] || fail "go-lifecycle not in module cache"
mkdir -p "$S/lifecycle" && cp "$LC"/lifecycle.go "$LC"/go.mod "$S/lifecycle/" && chmod -R u+w "$S/lifecycle" || fail "copy lifecycle"
cp -r "$V/detsim" "$S/detsim" && rm -f "$S/detsim/"*_test.go || fail "copy detsim"
mkdir -p "$S/sim" && cp -r "$V/sim/world" "$V/sim/scen" "$V/sim/cmd" "$S/sim/" || fail "copy sim"
KCINSTR="${KCINSTR:-$V/bin/kcinstr}"
[ -x "$KCINSTR" ] || fail "kcinstr not built (run setup)"

( cd "$S/lifecycle" && go mod edit -require detsim@v0.0.0 -replace detsim=../detsim ) || fail "lifecycle go.mod"
( cd "$S/kc" && go mod edit -require detsim@v0.0.0 -replace detsim=../detsim -replace github.com/boz/go-lifecycle=../lifecycle ) || fail "kc go.mod"
cat > "$S/sim/go.mod" <<EOM
module kcsim

go 1.18

require (
	detsim v0.0.0
	github.com/anishathalye/porcupine v1.3.0
	github.com/boz/go-lifecycle v0.1.0
	github.com/boz/go-logutil v0.1.0
	github.com/boz/kcache v0.0.0
	k8s.io/api v0.24.3
	k8s.io/apimachinery v0.24.3
)

replace detsim => ../detsim

replace github.com/boz/kcache => ../kc

replace github.com/boz/go-lifecycle => ../lifecycle
EOM
cat "$S/kc/go.sum" "$V/sim/go.sum" | sort -u > "$S/sim/go.sum"
cp "$S/kc/go.sum" "$S/lifecycle/go.sum"

"$KCINSTR" -dir "$S/lifecycle" . || exit 2
YIELD="${VERIF_YIELD:-}"
"$KCINSTR" -dir "$S/kc" -tags verif -constvar EventBufsiz -sites "$S/sites.txt" -yield "$YIELD" . ./types/... ./join ./client ./filter ./nsname || exit 2
# nothing nondeterministic may survive in the instrumented library
if grep -n "reflect\.Select\|sync\.Map\|sync\.Cond" "$S"/kc/*.go "$S"/kc/join/*.go "$S"/kc/types/*/*.go 2>/dev/null | grep -v _test.go | grep -v "^$S/kc/types/gen"; then
  fail "unsupported primitive in instrumented code"
fi
"$KCINSTR" -dir "$S/sim" -tags verif,kcinstr -mapfn MapKeysSorted ./world/... ./scen/... || exit 2
( cd "$S/sim" && go build -tags verif,kcinstr -trimpath -o "$S/worker" ./cmd/worker ) || fail "go build of the instrumented tree failed"
echo "build_sim: ok $S/worker"
