#!/bin/bash
# build_sim.sh <scratch-dir> : copy /repo's working tree + go-lifecycle + the
# harness into <scratch-dir>, instrument everything with kcinstr, build the
# worker binary at <scratch-dir>/worker.  Exit 2 on any infrastructure problem.
set -u
S="$1"
REPO="${VERIF_REPO:-/repo}"
V="$(cd "$(dirname "$0")" && pwd)"
export GOFLAGS=-mod=mod GOPROXY=off GOSUMDB=off GOTOOLCHAIN=local GONOSUMDB=* GONOSUMCHECK=1 GOFLAGS=-mod=mod
fail() { echo "build_sim: INFRA: $*" >&2; exit 2; }
MODCACHE="$(go env GOMODCACHE)"
rm -rf "$S" && mkdir -p "$S" || fail "cannot create $S"
rsync -a --exclude .git --exclude _example "$REPO"/ "$S/kc/" || fail "copy repo"
LC="$MODCACHE/github.com/boz/go-lifecycle@v0.1.0"
[ -d "$LC" ] || fail "go-lifecycle not in module cache"
mkdir -p "$S/lifecycle" && cp "$LC"/lifecycle.go "$LC"/go.mod "$S/lifecycle/" && chmod -R u+w "$S/lifecycle" || fail "copy lifecycle"
cp -r "$V/detsim" "$S/detsim" && rm -f "$S/detsim/"*_test.go || fail "copy detsim"
mkdir -p "$S/sim" && cp -r "$V/sim/world" "$V/sim/scen" "$V/sim/cmd" "$S/sim/" || fail "copy sim"
KCINSTR="${KCINSTR:-$V/bin/kcinstr}"
[ -x "$KCINSTR" ] || fail "kcinstr not built (run setup)"

( cd "$S/lifecycle" && go mod edit -require detsim@v0.0.0 -replace detsim=../detsim ) || fail "lifecycle go.mod"
( cd "$S/kc" && go mod edit -require detsim@v0.0.0 -replace detsim=../detsim -replace github.com/boz/go-lifecycle=../lifecycle ) || fail "kc go.mod"
cat > "$S/sim/go.mod" <<EOM
module kcsim

go 1.18

require (
	detsim v0.0.0
	github.com/anishathalye/porcupine v1.3.0
	github.com/boz/go-lifecycle v0.1.0
	github.com/boz/go-logutil v0.1.0
	github.com/boz/kcache v0.0.0
	k8s.io/api v0.24.3
	k8s.io/apimachinery v0.24.3
)

replace detsim => ../detsim

replace github.com/boz/kcache => ../kc

replace github.com/boz/go-lifecycle => ../lifecycle
EOM
cat "$S/kc/go.sum" "$V/sim/go.sum" | sort -u > "$S/sim/go.sum"
cp "$S/kc/go.sum" "$S/lifecycle/go.sum"

"$KCINSTR" -dir "$S/lifecycle" . || exit 2
YIELD="${VERIF_YIELD:-}"
OWNER="${VERIF_OWNER:-}"
"$KCINSTR" -dir "$S/kc" -tags verif -constvar EventBufsiz -sites "$S/sites.txt" -yield "$YIELD" -owner "$OWNER" . ./types/... ./join ./client ./filter ./nsname || exit 2
# nothing nondeterministic may survive in the instrumented library
if grep -n "reflect\.Select" "$S"/kc/*.go "$S"/kc/join/*.go "$S"/kc/types/*/*.go 2>/dev/null | grep -v _test.go | grep -v "^$S/kc/types/gen"; then
  fail "unsupported primitive in instrumented code"
fi
# typed glue: one file per typed package, instantiated from the template
gen_glue() { sed -e "s/PKG/$1/g" -e "s#APIIMPORT#$2#g" -e "s/APITYPE/$3/g" "$S/sim/scen/typed_glue.go.tmpl" > "$S/sim/scen/zz_typed_$1.go"; }
gen_glue pod k8s.io/api/core/v1 Pod
gen_glue service k8s.io/api/core/v1 Service
gen_glue secret k8s.io/api/core/v1 Secret
gen_glue node k8s.io/api/core/v1 Node
gen_glue event k8s.io/api/core/v1 Event
gen_glue replicationcontroller k8s.io/api/core/v1 ReplicationController
gen_glue ingress k8s.io/api/networking/v1beta1 Ingress
gen_glue job k8s.io/api/batch/v1 Job
gen_glue daemonset k8s.io/api/apps/v1 DaemonSet
gen_glue deployment k8s.io/api/apps/v1 Deployment
gen_glue replicaset k8s.io/api/apps/v1 ReplicaSet
gen_glue statefulset k8s.io/api/apps/v1 StatefulSet
rm -f "$S/sim/scen/typed_glue.go.tmpl"
"$KCINSTR" -dir "$S/sim" -tags verif,kcinstr -mapfn MapKeysSorted ./world/... ./scen/... || exit 2
( cd "$S/sim" && go build -tags verif,kcinstr -trimpath -o "$S/worker" ./cmd/worker ) || fail "go build of the instrumented tree failed"
echo "build_sim: ok $S/worker"
