// kcinstr rewrites Go packages in place (run it on a scratch copy!) so that
// every select, channel operation, go statement, close, timer, math/rand call,
// sync primitive and range-over-map goes through the detsim runtime.
//
//	kcinstr -dir <module root> [-tags verif] [-constvar EventBufsiz] [-yield cache.go] pattern...
//
// Exit status 2 = something could not be rewritten soundly (infrastructure
// problem, never a property violation).
package main

import (
	"bytes"
	"flag"
	"fmt"
	"go/ast"
	"go/format"
	"go/token"
	"go/types"
	"os"
	"path/filepath"
	"sort"
	"strconv"
	"strings"

	"golang.org/x/tools/go/ast/astutil"
	"golang.org/x/tools/go/packages"
)

var (
	flagDir      = flag.String("dir", ".", "module directory")
	flagTags     = flag.String("tags", "", "build tags")
	flagConstVar = flag.String("constvar", "", "comma separated constants to turn into variables")
	flagYield    = flag.String("yield", "", "comma separated file base names (pkgname/file.go) that get statement-level yields")
	flagSites    = flag.String("sites", "", "write the table of select sites/cases to this file")
	flagVerbose  = flag.Bool("v", false, "verbose")
	flagOwner    = flag.String("owner", "", "comma separated files (pkgname/file.go): mutable fields of struct types declared there are actor-owned; every access gets a detsim.Touch")
	flagMapFn    = flag.String("mapfn", "MapKeys", "detsim function used for range-over-map (MapKeys | MapKeysSorted)")
)

const dsPkg = "detsim"

type fatalErr struct{ msg string }

func fatalf(format string, args ...interface{}) {
	panic(fatalErr{fmt.Sprintf(format, args...)})
}

func main() {
	flag.Parse()
	defer func() {
		if r := recover(); r != nil {
			if fe, ok := r.(fatalErr); ok {
				fmt.Fprintln(os.Stderr, "kcinstr: INFRA:", fe.msg)
				os.Exit(2)
			}
			panic(r)
		}
	}()
	cfg := &packages.Config{
		Mode: packages.NeedName | packages.NeedFiles | packages.NeedCompiledGoFiles | packages.NeedSyntax |
			packages.NeedTypes | packages.NeedTypesInfo | packages.NeedImports | packages.NeedTypesSizes,
		Dir: *flagDir,
		Env: os.Environ(),
	}
	if *flagTags != "" {
		cfg.BuildFlags = []string{"-tags=" + *flagTags}
	}
	pkgs, err := packages.Load(cfg, flag.Args()...)
	if err != nil {
		fatalf("load: %v", err)
	}
	bad := false
	for _, p := range pkgs {
		for _, e := range p.Errors {
			fmt.Fprintf(os.Stderr, "kcinstr: %s: %v\n", p.PkgPath, e)
			bad = true
		}
	}
	if bad {
		fatalf("packages do not type-check")
	}
	constVar := map[string]bool{}
	for _, c := range strings.Split(*flagConstVar, ",") {
		if c != "" {
			constVar[c] = true
		}
	}
	yield := map[string]bool{}
	for _, c := range strings.Split(*flagYield, ",") {
		if c != "" {
			yield[c] = true
		}
	}
	var sites []string
	nfiles := 0
	ownerFiles := map[string]bool{}
	for _, c := range strings.Split(*flagOwner, ",") {
		if c != "" {
			ownerFiles[c] = true
		}
	}
	for _, p := range pkgs {
		owned := ownedFields(p, ownerFiles)
		conv := constsToConvert(p, constVar)
		if p.Name == "kcache" || len(conv) > 0 {
			writeKnobFile(p, conv, constVar)
		}
		for i, f := range p.Syntax {
			name := p.CompiledGoFiles[i]
			if !strings.HasSuffix(name, ".go") {
				continue
			}
			r := &rewriter{pkg: p, file: f, fset: p.Fset, info: p.TypesInfo, constVar: constVar,
				short: p.Name + "/" + filepath.Base(name)}
			r.yield = yield[r.short]
			r.owned = owned
			r.conv = conv
			r.run()
			sites = append(sites, r.sites...)
			if !r.changed {
				continue
			}
			var buf bytes.Buffer
			if err := format.Node(&buf, p.Fset, f); err != nil {
				fatalf("print %s: %v", name, err)
			}
			if err := os.WriteFile(name, buf.Bytes(), 0644); err != nil {
				fatalf("write %s: %v", name, err)
			}
			nfiles++
			if *flagVerbose {
				fmt.Fprintf(os.Stderr, "kcinstr: rewrote %s\n", name)
			}
		}
	}
	if *flagSites != "" {
		sort.Strings(sites)
		os.WriteFile(*flagSites, []byte(strings.Join(sites, "\n")+"\n"), 0644)
	}
	fmt.Fprintf(os.Stderr, "kcinstr: %d packages, %d files rewritten, %d select/op sites\n", len(pkgs), nfiles, len(sites))
}

type rewriter struct {
	pkg      *packages.Package
	file     *ast.File
	fset     *token.FileSet
	info     *types.Info
	constVar map[string]bool
	short    string
	yield    bool
	changed  bool
	n        int
	sites    []string

	skip      map[ast.Node]bool      // comm statements of selects: top-level op not rewritten
	rangeKind map[*ast.RangeStmt]int // 1 chan, 2 map
	constExpr map[ast.Expr]bool      // expression is constant or nil (recorded before children change)
	goFun     map[*ast.GoStmt]int    // 0 hoist fun, 1 direct (package-level func), 2 funclit
	mapKeyPtr map[*ast.AssignStmt][]int
	core      map[*ast.BlockStmt]int // generated block -> index of its core statement (for labels)
	funcName  string
	funcStack []string
	conv      map[types.Object]bool // constants that become variables (knobs and whatever is computed from them)
	owned     map[*types.Var]string // actor-owned mutable struct fields -> "Type.field"
}

func (r *rewriter) site(n ast.Node) string {
	pos := r.fset.Position(n.Pos())
	return r.short + ":" + strconv.Itoa(pos.Line)
}

func (r *rewriter) sitePos(p token.Pos) string {
	pos := r.fset.Position(p)
	return r.short + ":" + strconv.Itoa(pos.Line)
}

func (r *rewriter) tmp(prefix string) string {
	r.n++
	return "_ds" + prefix + strconv.Itoa(r.n)
}

func ds(name string) ast.Expr {
	return &ast.SelectorExpr{X: ast.NewIdent(dsPkg), Sel: ast.NewIdent(name)}
}

func str(s string) ast.Expr { return &ast.BasicLit{Kind: token.STRING, Value: strconv.Quote(s)} }

func call(fun ast.Expr, args ...ast.Expr) *ast.CallExpr { return &ast.CallExpr{Fun: fun, Args: args} }

func define(name string, rhs ast.Expr) ast.Stmt {
	return &ast.AssignStmt{Lhs: []ast.Expr{ast.NewIdent(name)}, Tok: token.DEFINE, Rhs: []ast.Expr{rhs}}
}

func (r *rewriter) isPkg(x ast.Expr, path string) bool {
	id, ok := x.(*ast.Ident)
	if !ok {
		return false
	}
	pn, ok := r.info.Uses[id].(*types.PkgName)
	return ok && pn.Imported().Path() == path
}

func (r *rewriter) isConstOrNil(e ast.Expr) bool {
	tv, ok := r.info.Types[e]
	if !ok {
		return false
	}
	return tv.Value != nil || tv.IsNil()
}

func ptrLike(t types.Type) bool {
	switch u := t.Underlying().(type) {
	case *types.Pointer, *types.Chan, *types.Interface, *types.Signature, *types.Map:
		return true
	case *types.Basic:
		return u.Kind() == types.UnsafePointer
	case *types.Struct:
		for i := 0; i < u.NumFields(); i++ {
			if ptrLike(u.Field(i).Type()) {
				return true
			}
		}
	case *types.Array:
		return ptrLike(u.Elem())
	}
	return false
}

var timeCallsAt = map[string]string{"NewTimer": "NewTimerAt", "AfterFunc": "AfterFuncAt", "After": "AfterAt", "Sleep": "SleepAt"}
var timeNames = map[string]bool{"NewTimer": true, "AfterFunc": true, "After": true, "Sleep": true, "Now": true, "Since": true, "Until": true,
	"NewTicker": true, "Tick": true, "Timer": true, "Ticker": true}
var randNames = map[string]string{"Float64": "RandFloat64", "Intn": "RandIntn", "Int63n": "RandInt63n", "Int63": "RandInt63", "Int": "RandInt",
	"Int31n": "RandInt31n", "Perm": "RandPerm", "Shuffle": "RandShuffle"}
var syncNames = map[string]bool{"Mutex": true, "RWMutex": true, "WaitGroup": true, "Once": true, "Cond": true, "NewCond": true, "Map": true}
var syncAllowed = map[string]bool{"Pool": true, "Locker": true}

func (r *rewriter) run() {
	r.skip = map[ast.Node]bool{}
	r.rangeKind = map[*ast.RangeStmt]int{}
	r.constExpr = map[ast.Expr]bool{}
	r.goFun = map[*ast.GoStmt]int{}
	r.mapKeyPtr = map[*ast.AssignStmt][]int{}
	r.core = map[*ast.BlockStmt]int{}

	// const -> var: the knobs, and constants computed from them
	if len(r.conv) > 0 {
		var decls []ast.Decl
		for _, d := range r.file.Decls {
			gd, ok := d.(*ast.GenDecl)
			if !ok || gd.Tok != token.CONST {
				decls = append(decls, d)
				continue
			}
			var keep, move []ast.Spec
			for _, sp := range gd.Specs {
				vs := sp.(*ast.ValueSpec)
				hit := false
				for _, n := range vs.Names {
					if r.conv[r.info.Defs[n]] {
						hit = true
					}
				}
				if hit {
					move = append(move, sp)
				} else {
					keep = append(keep, sp)
				}
			}
			if len(move) == 0 {
				decls = append(decls, d)
				continue
			}
			r.changed = true
			if len(keep) > 0 {
				gd.Specs = keep
				decls = append(decls, gd)
			}
			decls = append(decls, &ast.GenDecl{Tok: token.VAR, Lparen: 1, Specs: move, Rparen: 2})
		}
		r.file.Decls = decls
	}

	if len(r.owned) > 0 {
		r.insertTouches()
	}
	if r.yield {
		// on the original tree, before any generated code exists: a preemption
		// point must never sit between detsim.Select and the real operation
		r.insertYields()
	}

	astutil.Apply(r.file, r.pre, r.post)

	if r.changed {
		// keep only comments before the package clause (build constraints, doc)
		var keep []*ast.CommentGroup
		for _, cg := range r.file.Comments {
			if cg.End() < r.file.Package {
				keep = append(keep, cg)
			}
		}
		r.file.Comments = keep
		clearDocs(r.file)
		astutil.AddImport(r.fset, r.file, dsPkg)
		for _, imp := range []struct{ path, name string }{{"time", "time"}, {"math/rand", "rand"}, {"sync", "sync"}, {"context", "context"}} {
			name := imp.name
			found := false
			for _, is := range r.file.Imports {
				p, _ := strconv.Unquote(is.Path.Value)
				if p == imp.path {
					found = true
					if is.Name != nil {
						name = is.Name.Name
					}
				}
			}
			if found && name != "_" && name != "." && !usesName(r.file, name) {
				astutil.DeleteImport(r.fset, r.file, imp.path)
				astutil.DeleteNamedImport(r.fset, r.file, name, imp.path)
			}
		}
	}
}

func clearDocs(f *ast.File) {
	ast.Inspect(f, func(n ast.Node) bool {
		switch x := n.(type) {
		case *ast.FuncDecl:
			x.Doc = nil
		case *ast.GenDecl:
			x.Doc = nil
		case *ast.TypeSpec:
			x.Doc, x.Comment = nil, nil
		case *ast.ValueSpec:
			x.Doc, x.Comment = nil, nil
		case *ast.Field:
			x.Doc, x.Comment = nil, nil
		case *ast.ImportSpec:
			x.Doc, x.Comment = nil, nil
		}
		return true
	})
}

func usesName(f *ast.File, name string) bool {
	used := false
	ast.Inspect(f, func(n ast.Node) bool {
		if se, ok := n.(*ast.SelectorExpr); ok {
			if id, ok := se.X.(*ast.Ident); ok && id.Name == name && id.Obj == nil {
				used = true
			}
		}
		return !used
	})
	return used
}

func (r *rewriter) pre(c *astutil.Cursor) bool {
	switch n := c.Node().(type) {
	case *ast.FuncDecl:
		name := n.Name.Name
		if n.Recv != nil && len(n.Recv.List) == 1 {
			t := n.Recv.List[0].Type
			if st, ok := t.(*ast.StarExpr); ok {
				t = st.X
			}
			if id, ok := t.(*ast.Ident); ok {
				name = id.Name + "." + name
			}
		}
		r.funcName = name
	case *ast.SelectStmt:
		for _, cl := range n.Body.List {
			cc := cl.(*ast.CommClause)
			if cc.Comm == nil {
				continue
			}
			switch cm := cc.Comm.(type) {
			case *ast.SendStmt:
				r.skip[cm] = true
				r.constExpr[cm.Value] = r.isConstOrNil(cm.Value)
			case *ast.ExprStmt:
				r.skip[cm.X] = true
			case *ast.AssignStmt:
				r.skip[cm.Rhs[0]] = true
			}
		}
	case *ast.SendStmt:
		if !r.skip[n] {
			r.constExpr[n.Value] = r.isConstOrNil(n.Value)
		}
	case *ast.RangeStmt:
		if tv, ok := r.info.Types[n.X]; ok {
			switch u := tv.Type.Underlying().(type) {
			case *types.Chan:
				r.rangeKind[n] = 1
			case *types.Map:
				r.rangeKind[n] = 2
			case *types.TypeParam:
				_ = u
				fatalf("%s: range over type parameter not supported", r.site(n))
			}
		}
	case *ast.GoStmt:
		switch f := n.Call.Fun.(type) {
		case *ast.FuncLit:
			r.goFun[n] = 2
		case *ast.Ident:
			if _, ok := r.info.Uses[f].(*types.Func); ok {
				r.goFun[n] = 1
			}
		case *ast.SelectorExpr:
			if id, ok := f.X.(*ast.Ident); ok {
				if _, ok := r.info.Uses[id].(*types.PkgName); ok {
					r.goFun[n] = 1
				}
			}
		}
		for _, a := range n.Call.Args {
			r.constExpr[a] = r.isConstOrNil(a)
		}
	case *ast.AssignStmt:
		for i, l := range n.Lhs {
			ix, ok := l.(*ast.IndexExpr)
			if !ok {
				continue
			}
			tv, ok := r.info.Types[ix.X]
			if !ok {
				continue
			}
			if m, ok := tv.Type.Underlying().(*types.Map); ok && ptrLike(m.Key()) {
				switch ix.Index.(type) {
				case *ast.Ident, *ast.SelectorExpr:
					r.mapKeyPtr[n] = append(r.mapKeyPtr[n], i)
				default:
					fatalf("%s: map insertion with pointer-like key and complex key expression", r.site(n))
				}
			}
		}
	}
	return true
}

func (r *rewriter) post(c *astutil.Cursor) bool {
	switch n := c.Node().(type) {

	case *ast.UnaryExpr:
		if n.Op != token.ARROW || r.skip[n] {
			return true
		}
		fn := "Recv"
		switch p := c.Parent().(type) {
		case *ast.AssignStmt:
			if len(p.Lhs) == 2 && len(p.Rhs) == 1 {
				fn = "Recv2"
			}
		case *ast.ValueSpec:
			if len(p.Names) == 2 && len(p.Values) == 1 {
				fn = "Recv2"
			}
		}
		c.Replace(call(ds(fn), str(r.site(n)), n.X))
		r.sites = append(r.sites, r.site(n)+"#0 recv")
		r.changed = true

	case *ast.SendStmt:
		if r.skip[n] {
			return true
		}
		sel := &ast.SelectStmt{Select: n.Pos(), Body: &ast.BlockStmt{List: []ast.Stmt{
			&ast.CommClause{Comm: n},
		}}}
		r.replaceStmt(c, r.rewriteSelect(sel, r.site(n)))

	case *ast.SelectStmt:
		r.replaceStmt(c, r.rewriteSelect(n, r.site(n)))

	case *ast.RangeStmt:
		switch r.rangeKind[n] {
		case 1:
			r.replaceStmt(c, r.rewriteRangeChan(n))
		case 2:
			r.replaceStmt(c, r.rewriteRangeMap(n))
		}

	case *ast.GoStmt:
		r.replaceStmt(c, r.rewriteGo(n))

	case *ast.LabeledStmt:
		if blk, ok := n.Stmt.(*ast.BlockStmt); ok {
			if idx, ok := r.core[blk]; ok {
				// move the label onto the core statement of the generated block
				blk.List[idx] = &ast.LabeledStmt{Label: n.Label, Colon: n.Colon, Stmt: blk.List[idx]}
				c.Replace(blk)
			}
		}

	case *ast.AssignStmt:
		if idxs, ok := r.mapKeyPtr[n]; ok {
			if c.Index() < 0 {
				fatalf("%s: map insertion outside a statement list", r.site(n))
			}
			for _, i := range idxs {
				key := n.Lhs[i].(*ast.IndexExpr).Index
				c.InsertBefore(&ast.ExprStmt{X: call(ds("NoteKey"), key)})
			}
			r.changed = true
		}

	case *ast.CallExpr:
		if id, ok := n.Fun.(*ast.Ident); ok && id.Name == "close" && len(n.Args) == 1 {
			if _, ok := r.info.Uses[id].(*types.Builtin); ok {
				c.Replace(call(ds("Close"), str(r.site(n)), n.Args[0]))
				r.changed = true
			}
			return true
		}
		// time.NewTimer(d) etc. were already renamed to detsim.NewTimer by the
		// SelectorExpr case (children first); add the site argument here.
		if se, ok := n.Fun.(*ast.SelectorExpr); ok {
			if id, ok := se.X.(*ast.Ident); ok && id.Name == dsPkg {
				if at, ok := timeCallsAt[se.Sel.Name]; ok {
					se.Sel = ast.NewIdent(at)
					n.Args = append([]ast.Expr{str(r.sitePos(n.Lparen))}, n.Args...)
				}
			}
		}

	case *ast.SelectorExpr:
		switch {
		case r.isPkg(n.X, "time"):
			if timeNames[n.Sel.Name] {
				c.Replace(ds(n.Sel.Name))
				r.changed = true
			}
		case r.isPkg(n.X, "math/rand"):
			if to, ok := randNames[n.Sel.Name]; ok {
				c.Replace(ds(to))
				r.changed = true
			} else if n.Sel.Name != "Rand" && n.Sel.Name != "New" && n.Sel.Name != "NewSource" && n.Sel.Name != "Source" {
				fatalf("%s: math/rand.%s is not supported by the simulator", r.site(n), n.Sel.Name)
			}
		case r.isPkg(n.X, "sync"):
			if syncNames[n.Sel.Name] {
				c.Replace(ds(n.Sel.Name))
				r.changed = true
			} else if !syncAllowed[n.Sel.Name] {
				fatalf("%s: sync.%s is not supported by the simulator", r.site(n), n.Sel.Name)
			}
		case r.isPkg(n.X, "context"):
			if n.Sel.Name == "WithTimeout" || n.Sel.Name == "WithDeadline" || n.Sel.Name == "WithCancel" {
				c.Replace(ds(n.Sel.Name))
				r.changed = true
			}
		case r.isPkg(n.X, "reflect"):
			if n.Sel.Name == "Select" {
				fatalf("%s: reflect.Select is not supported by the simulator", r.site(n))
			}
		case r.isPkg(n.X, "runtime"):
			// behaviour that depends on the garbage collector or on OS threads is
			// outside the simulator's seams: say "cannot decide" (exit 2) rather
			// than pass such code as if it had been explored
			if n.Sel.Name == "SetFinalizer" || n.Sel.Name == "AddCleanup" || n.Sel.Name == "LockOSThread" {
				fatalf("%s: runtime.%s is not supported by the simulator (object lifetime under the garbage collector / OS threads are not under its control)", r.site(n), n.Sel.Name)
			}
		}
	}
	return true
}

func (r *rewriter) replaceStmt(c *astutil.Cursor, s ast.Stmt) {
	r.changed = true
	c.Replace(s)
}

// rewriteSelect: hoist channel and send-value expressions, ask the simulator
// which case fires, mask all other channels to nil, keep the select.
func (r *rewriter) rewriteSelect(sel *ast.SelectStmt, site string) ast.Stmt {
	var pre []ast.Stmt
	var caseArgs []ast.Expr
	var chans []string
	hasDefault := false
	ci := 0
	for _, cl := range sel.Body.List {
		cc := cl.(*ast.CommClause)
		if cc.Comm == nil {
			hasDefault = true
			continue
		}
		var chExpr *ast.Expr
		send := false
		switch cm := cc.Comm.(type) {
		case *ast.SendStmt:
			send = true
			chExpr = &cm.Chan
			if !r.constExpr[cm.Value] {
				v := r.tmp("v")
				pre2 := define(v, cm.Value)
				// Go evaluates channel then value, in source order
				chName := r.tmp("c")
				pre = append(pre, define(chName, cm.Chan), pre2)
				cm.Chan = ast.NewIdent(chName)
				cm.Value = ast.NewIdent(v)
				chans = append(chans, chName)
				caseArgs = append(caseArgs, call(ds("S"), ast.NewIdent(chName)))
				r.sites = append(r.sites, fmt.Sprintf("%s#%d send", site, ci))
				ci++
				cc.Body = append([]ast.Stmt{nil}, cc.Body...)
				continue
			}
		case *ast.ExprStmt:
			u := unparen(cm.X).(*ast.UnaryExpr)
			chExpr = &u.X
		case *ast.AssignStmt:
			u := unparen(cm.Rhs[0]).(*ast.UnaryExpr)
			chExpr = &u.X
		default:
			fatalf("%s: unexpected comm clause %T", site, cc.Comm)
		}
		chName := r.tmp("c")
		pre = append(pre, define(chName, *chExpr))
		*chExpr = ast.NewIdent(chName)
		chans = append(chans, chName)
		if send {
			caseArgs = append(caseArgs, call(ds("S"), ast.NewIdent(chName)))
			r.sites = append(r.sites, fmt.Sprintf("%s#%d send", site, ci))
		} else {
			caseArgs = append(caseArgs, call(ds("R"), ast.NewIdent(chName)))
			r.sites = append(r.sites, fmt.Sprintf("%s#%d recv", site, ci))
		}
		ci++
		cc.Body = append([]ast.Stmt{nil}, cc.Body...)
	}
	if hasDefault {
		r.sites = append(r.sites, fmt.Sprintf("%s#%d default", site, ci))
	}
	tok := r.tmp("t")
	hd := "false"
	if hasDefault {
		hd = "true"
	}
	args := append([]ast.Expr{str(site), ast.NewIdent(hd)}, caseArgs...)
	pre = append(pre, define(tok, call(ds("Select"), args...)))
	// masking: if tok.I >= 0 { if tok.I != k { ck = nil } ... }
	var masks []ast.Stmt
	for k, ch := range chans {
		masks = append(masks, &ast.IfStmt{
			Cond: &ast.BinaryExpr{X: &ast.SelectorExpr{X: ast.NewIdent(tok), Sel: ast.NewIdent("I")}, Op: token.NEQ, Y: &ast.BasicLit{Kind: token.INT, Value: strconv.Itoa(k)}},
			Body: &ast.BlockStmt{List: []ast.Stmt{&ast.AssignStmt{Lhs: []ast.Expr{ast.NewIdent(ch)}, Tok: token.ASSIGN, Rhs: []ast.Expr{ast.NewIdent("nil")}}}},
		})
	}
	if len(masks) > 1 || hasDefault {
		pre = append(pre, &ast.IfStmt{
			Cond: &ast.BinaryExpr{X: &ast.SelectorExpr{X: ast.NewIdent(tok), Sel: ast.NewIdent("I")}, Op: token.GEQ, Y: &ast.BasicLit{Kind: token.INT, Value: "0"}},
			Body: &ast.BlockStmt{List: masks},
		})
	}
	// first statement of each non-default body: tok.Done()
	for _, cl := range sel.Body.List {
		cc := cl.(*ast.CommClause)
		if cc.Comm == nil {
			continue
		}
		cc.Body[0] = &ast.ExprStmt{X: call(&ast.SelectorExpr{X: ast.NewIdent(tok), Sel: ast.NewIdent("Done")})}
	}
	var core ast.Stmt = sel
	if hasDefault && len(chans) > 0 {
		// A chosen non-default case may be one half of an unbuffered rendezvous
		// whose partner has not reached its real operation yet; the real select
		// must then not fall into default.  Retry until the chosen case fires:
		//   L: select { ...; default: if tok.I >= 0 && tok.I != nDefault { Gosched(); goto L }; <default body> }
		label := r.tmp("retry")
		for _, cl := range sel.Body.List {
			cc := cl.(*ast.CommClause)
			if cc.Comm != nil {
				continue
			}
			guard := &ast.IfStmt{
				Cond: &ast.BinaryExpr{
					X:  &ast.BinaryExpr{X: &ast.SelectorExpr{X: ast.NewIdent(tok), Sel: ast.NewIdent("I")}, Op: token.GEQ, Y: &ast.BasicLit{Kind: token.INT, Value: "0"}},
					Op: token.LAND,
					Y:  &ast.BinaryExpr{X: &ast.SelectorExpr{X: ast.NewIdent(tok), Sel: ast.NewIdent("I")}, Op: token.NEQ, Y: &ast.BasicLit{Kind: token.INT, Value: strconv.Itoa(len(chans))}},
				},
				Body: &ast.BlockStmt{List: []ast.Stmt{
					&ast.ExprStmt{X: call(ds("Spin"))},
					&ast.BranchStmt{Tok: token.GOTO, Label: ast.NewIdent(label)},
				}},
			}
			cc.Body = append([]ast.Stmt{guard}, cc.Body...)
		}
		core = &ast.LabeledStmt{Label: ast.NewIdent(label), Stmt: sel}
	}
	blk := &ast.BlockStmt{List: append(pre, core)}
	r.core[blk] = len(pre)
	return blk
}

func unparen(e ast.Expr) ast.Expr {
	for {
		p, ok := e.(*ast.ParenExpr)
		if !ok {
			return e
		}
		e = p.X
	}
}

func (r *rewriter) rewriteRangeChan(n *ast.RangeStmt) ast.Stmt {
	site := r.site(n)
	r.sites = append(r.sites, site+"#0 recv")
	ch := r.tmp("c")
	ok := r.tmp("ok")
	var head []ast.Stmt
	recv := call(ds("Recv2"), str(site), ast.NewIdent(ch))
	brk := &ast.IfStmt{Cond: &ast.UnaryExpr{Op: token.NOT, X: ast.NewIdent(ok)}, Body: &ast.BlockStmt{List: []ast.Stmt{&ast.BranchStmt{Tok: token.BREAK}}}}
	switch {
	case n.Key == nil || isBlank(n.Key):
		head = []ast.Stmt{&ast.AssignStmt{Lhs: []ast.Expr{ast.NewIdent("_"), ast.NewIdent(ok)}, Tok: token.DEFINE, Rhs: []ast.Expr{recv}}, brk}
	case n.Tok == token.DEFINE:
		head = []ast.Stmt{&ast.AssignStmt{Lhs: []ast.Expr{n.Key, ast.NewIdent(ok)}, Tok: token.DEFINE, Rhs: []ast.Expr{recv}}, brk}
	default:
		v := r.tmp("v")
		head = []ast.Stmt{&ast.AssignStmt{Lhs: []ast.Expr{ast.NewIdent(v), ast.NewIdent(ok)}, Tok: token.DEFINE, Rhs: []ast.Expr{recv}}, brk,
			&ast.AssignStmt{Lhs: []ast.Expr{n.Key}, Tok: token.ASSIGN, Rhs: []ast.Expr{ast.NewIdent(v)}}}
	}
	loop := &ast.ForStmt{Body: &ast.BlockStmt{List: append(head, n.Body)}}
	blk := &ast.BlockStmt{List: []ast.Stmt{define(ch, n.X), loop}}
	r.core[blk] = 1
	return blk
}

func isBlank(e ast.Expr) bool {
	id, ok := e.(*ast.Ident)
	return ok && id.Name == "_"
}

func (r *rewriter) rewriteRangeMap(n *ast.RangeStmt) ast.Stmt {
	site := r.site(n)
	if n.Tok == token.ASSIGN {
		fatalf("%s: range over map with '=' is not supported", site)
	}
	m := r.tmp("m")
	ok := r.tmp("ok")
	var keyName string
	if n.Key != nil && !isBlank(n.Key) {
		keyName = n.Key.(*ast.Ident).Name
	} else {
		keyName = r.tmp("k")
	}
	var valLhs ast.Expr = ast.NewIdent("_")
	if n.Value != nil && !isBlank(n.Value) {
		valLhs = n.Value
	}
	look := &ast.AssignStmt{Lhs: []ast.Expr{valLhs, ast.NewIdent(ok)}, Tok: token.DEFINE,
		Rhs: []ast.Expr{&ast.IndexExpr{X: ast.NewIdent(m), Index: ast.NewIdent(keyName)}}}
	cont := &ast.IfStmt{Cond: &ast.UnaryExpr{Op: token.NOT, X: ast.NewIdent(ok)}, Body: &ast.BlockStmt{List: []ast.Stmt{&ast.BranchStmt{Tok: token.CONTINUE}}}}
	loop := &ast.RangeStmt{Key: ast.NewIdent("_"), Value: ast.NewIdent(keyName), Tok: token.DEFINE,
		X:    call(ds(*flagMapFn), str(site), ast.NewIdent(m)),
		Body: &ast.BlockStmt{List: []ast.Stmt{look, cont, n.Body}}}
	blk := &ast.BlockStmt{List: []ast.Stmt{define(m, n.X), loop}}
	r.core[blk] = 1
	return blk
}

func (r *rewriter) rewriteGo(n *ast.GoStmt) ast.Stmt {
	site := r.site(n)
	var nameBuf bytes.Buffer
	format.Node(&nameBuf, r.fset, n.Call.Fun)
	name := nameBuf.String()
	if _, ok := n.Call.Fun.(*ast.FuncLit); ok {
		name = "func"
	}
	if len(name) > 40 {
		name = name[:40]
	}
	name = r.funcName + ">" + name
	if r.goFun[n] == 2 && len(n.Call.Args) == 0 {
		return &ast.ExprStmt{X: call(ds("Go"), str(site), str(name), n.Call.Fun)}
	}
	var pre []ast.Stmt
	fun := n.Call.Fun
	if r.goFun[n] != 1 {
		f := r.tmp("f")
		pre = append(pre, define(f, fun))
		fun = ast.NewIdent(f)
	}
	var args []ast.Expr
	for _, a := range n.Call.Args {
		if r.constExpr[a] {
			args = append(args, a)
			continue
		}
		t := r.tmp("a")
		pre = append(pre, define(t, a))
		args = append(args, ast.NewIdent(t))
	}
	inner := &ast.CallExpr{Fun: fun, Args: args, Ellipsis: n.Call.Ellipsis}
	if n.Call.Ellipsis.IsValid() {
		inner.Ellipsis = 1
	}
	lit := &ast.FuncLit{Type: &ast.FuncType{Params: &ast.FieldList{}}, Body: &ast.BlockStmt{List: []ast.Stmt{&ast.ExprStmt{X: inner}}}}
	pre = append(pre, &ast.ExprStmt{X: call(ds("Go"), str(site), str(name), lit)})
	return &ast.BlockStmt{List: pre}
}

// insertYields puts a preemption point before every statement of every
// function body in the file (statement-level interleaving for data-race-like
// bugs that the channel-level granularity would hide).
func (r *rewriter) insertYields() {
	var doList func(list []ast.Stmt) []ast.Stmt
	doList = func(list []ast.Stmt) []ast.Stmt {
		var out []ast.Stmt
		for _, s := range list {
			switch s.(type) {
			case *ast.DeclStmt, *ast.LabeledStmt:
			default:
				out = append(out, &ast.ExprStmt{X: call(ds("Yield"), str(r.site(s)))})
			}
			out = append(out, s)
		}
		return out
	}
	clauseBlocks := map[*ast.BlockStmt]bool{}
	ast.Inspect(r.file, func(n ast.Node) bool {
		switch x := n.(type) {
		case *ast.SelectStmt:
			clauseBlocks[x.Body] = true
		case *ast.SwitchStmt:
			clauseBlocks[x.Body] = true
		case *ast.TypeSwitchStmt:
			clauseBlocks[x.Body] = true
		case *ast.BlockStmt:
			if _, gen := r.core[x]; !gen && !clauseBlocks[x] {
				x.List = doList(x.List)
			}
		case *ast.CaseClause:
			x.Body = doList(x.Body)
		case *ast.CommClause:
			x.Body = doList(x.Body)
		}
		return true
	})
	r.changed = true
}

// ownedFields: for the struct types declared in the owner files, the fields
// that are mutated somewhere in the package after construction (assigned,
// incremented, map-indexed on the left, deleted from).
func ownedFields(p *packages.Package, ownerFiles map[string]bool) map[*types.Var]string {
	if len(ownerFiles) == 0 {
		return nil
	}
	fieldOwner := map[*types.Var]string{}
	for i, f := range p.Syntax {
		short := p.Name + "/" + filepath.Base(p.CompiledGoFiles[i])
		if !ownerFiles[short] {
			continue
		}
		for _, d := range f.Decls {
			gd, ok := d.(*ast.GenDecl)
			if !ok || gd.Tok != token.TYPE {
				continue
			}
			for _, sp := range gd.Specs {
				ts := sp.(*ast.TypeSpec)
				obj, _ := p.TypesInfo.Defs[ts.Name].(*types.TypeName)
				if obj == nil {
					continue
				}
				st, ok := obj.Type().Underlying().(*types.Struct)
				if !ok {
					continue
				}
				for k := 0; k < st.NumFields(); k++ {
					fieldOwner[st.Field(k)] = ts.Name.Name + "." + st.Field(k).Name()
				}
			}
		}
	}
	mutated := map[*types.Var]string{}
	mark := func(e ast.Expr) {
		for {
			switch x := e.(type) {
			case *ast.ParenExpr:
				e = x.X
				continue
			case *ast.IndexExpr:
				e = x.X
				continue
			case *ast.StarExpr:
				e = x.X
				continue
			}
			break
		}
		if se, ok := e.(*ast.SelectorExpr); ok {
			if sel := p.TypesInfo.Selections[se]; sel != nil && sel.Kind() == types.FieldVal {
				if v, ok := sel.Obj().(*types.Var); ok {
					if name, ok := fieldOwner[v]; ok {
						mutated[v] = name
					}
				}
			}
		}
	}
	for _, f := range p.Syntax {
		ast.Inspect(f, func(n ast.Node) bool {
			switch x := n.(type) {
			case *ast.AssignStmt:
				for _, l := range x.Lhs {
					mark(l)
				}
			case *ast.IncDecStmt:
				mark(x.X)
			case *ast.CallExpr:
				if id, ok := x.Fun.(*ast.Ident); ok && id.Name == "delete" && len(x.Args) == 2 {
					mark(x.Args[0])
				}
			}
			return true
		})
	}
	return mutated
}

// insertTouches puts detsim.Touch(site, "Type.field", receiver, isWrite) before
// every statement that mentions an actor-owned mutable field (original tree,
// before any other rewrite).  Nested statement lists get their own touches.
func (r *rewriter) insertTouches() {
	type acc struct {
		name  string
		recv  ast.Expr
		write bool
	}
	pure := func(e ast.Expr) bool {
		for {
			switch x := e.(type) {
			case *ast.Ident:
				return true
			case *ast.SelectorExpr:
				e = x.X
			case *ast.ParenExpr:
				e = x.X
			case *ast.StarExpr:
				e = x.X
			default:
				return false
			}
		}
	}
	collect := func(stmt ast.Stmt) []acc {
		var out []acc
		writes := map[*ast.SelectorExpr]bool{}
		markW := func(e ast.Expr) {
			for {
				switch x := e.(type) {
				case *ast.ParenExpr:
					e = x.X
					continue
				case *ast.IndexExpr:
					e = x.X
					continue
				case *ast.StarExpr:
					e = x.X
					continue
				}
				break
			}
			if se, ok := e.(*ast.SelectorExpr); ok {
				writes[se] = true
			}
		}
		// first pass: which selectors are written by this statement itself
		switch x := stmt.(type) {
		case *ast.AssignStmt:
			for _, l := range x.Lhs {
				markW(l)
			}
		case *ast.IncDecStmt:
			markW(x.X)
		case *ast.ExprStmt:
			if c, ok := x.X.(*ast.CallExpr); ok {
				if id, ok := c.Fun.(*ast.Ident); ok && id.Name == "delete" && len(c.Args) == 2 {
					markW(c.Args[0])
				}
			}
		}
		ast.Inspect(stmt, func(n ast.Node) bool {
			switch x := n.(type) {
			case *ast.BlockStmt:
				return false // nested lists are handled on their own
			case *ast.FuncLit:
				return false
			case *ast.CaseClause:
				for _, e := range x.List {
					ast.Inspect(e, func(ast.Node) bool { return true })
				}
				return false
			case *ast.CommClause:
				return false
			case *ast.SelectorExpr:
				if sel := r.info.Selections[x]; sel != nil && sel.Kind() == types.FieldVal {
					if v, ok := sel.Obj().(*types.Var); ok {
						if name, ok := r.owned[v]; ok && pure(x.X) {
							out = append(out, acc{name, x.X, writes[x]})
						}
					}
				}
			}
			return true
		})
		return out
	}
	doList := func(list []ast.Stmt) []ast.Stmt {
		var out []ast.Stmt
		for _, s := range list {
			if _, ok := s.(*ast.LabeledStmt); !ok {
				seen := map[string]bool{}
				for _, a := range collect(s) {
					key := a.name
					if a.write {
						key += "/w"
					}
					if seen[key] {
						continue
					}
					seen[key] = true
					w := "false"
					if a.write {
						w = "true"
					}
					out = append(out, &ast.ExprStmt{X: call(ds("Touch"), str(r.site(s)), str(a.name), a.recv, ast.NewIdent(w))})
					r.changed = true
				}
			}
			out = append(out, s)
		}
		return out
	}
	clauseBlocks := map[*ast.BlockStmt]bool{}
	ast.Inspect(r.file, func(n ast.Node) bool {
		switch x := n.(type) {
		case *ast.SelectStmt:
			clauseBlocks[x.Body] = true
		case *ast.SwitchStmt:
			clauseBlocks[x.Body] = true
		case *ast.TypeSwitchStmt:
			clauseBlocks[x.Body] = true
		case *ast.BlockStmt:
			if !clauseBlocks[x] {
				x.List = doList(x.List)
			}
		case *ast.CaseClause:
			x.Body = doList(x.Body)
		case *ast.CommClause:
			x.Body = doList(x.Body)
		}
		return true
	})
}

// constsToConvert: the named knobs declared in this package plus every
// constant whose value is computed from one of them (transitively).  Returns
// nil if a conversion would not be sound to print (a converted constant has no
// explicit value, or is used as an array length).
func constsToConvert(p *packages.Package, names map[string]bool) map[types.Object]bool {
	conv := map[types.Object]bool{}
	type spec struct {
		vs *ast.ValueSpec
	}
	var specs []*ast.ValueSpec
	for _, f := range p.Syntax {
		for _, d := range f.Decls {
			gd, ok := d.(*ast.GenDecl)
			if !ok || gd.Tok != token.CONST {
				continue
			}
			for _, sp := range gd.Specs {
				vs := sp.(*ast.ValueSpec)
				specs = append(specs, vs)
				for _, n := range vs.Names {
					if names[n.Name] && p.Types.Scope().Lookup(n.Name) == p.TypesInfo.Defs[n] {
						conv[p.TypesInfo.Defs[n]] = true
					}
				}
			}
		}
	}
	if len(conv) == 0 {
		return nil
	}
	for changed := true; changed; {
		changed = false
		for _, vs := range specs {
			uses := false
			for _, v := range vs.Values {
				ast.Inspect(v, func(n ast.Node) bool {
					if id, ok := n.(*ast.Ident); ok && conv[p.TypesInfo.Uses[id]] {
						uses = true
					}
					return true
				})
			}
			if uses {
				for _, n := range vs.Names {
					if o := p.TypesInfo.Defs[n]; o != nil && !conv[o] {
						conv[o] = true
						changed = true
					}
				}
			}
		}
	}
	ok := true
	for _, vs := range specs {
		for _, n := range vs.Names {
			if conv[p.TypesInfo.Defs[n]] && len(vs.Values) == 0 {
				ok = false // implicit repetition (iota groups)
			}
		}
	}
	for _, f := range p.Syntax {
		ast.Inspect(f, func(n ast.Node) bool {
			if at, isArr := n.(*ast.ArrayType); isArr && at.Len != nil {
				ast.Inspect(at.Len, func(m ast.Node) bool {
					if id, isID := m.(*ast.Ident); isID && conv[p.TypesInfo.Uses[id]] {
						ok = false
					}
					return true
				})
			}
			return true
		})
	}
	if !ok {
		return nil
	}
	return conv
}

// writeKnobFile adds zz_detsim_knobs.go to the package: setters the harness
// calls instead of assigning to identifiers that may or may not have become
// variables.
func writeKnobFile(p *packages.Package, conv map[types.Object]bool, names map[string]bool) {
	if len(p.CompiledGoFiles) == 0 {
		return
	}
	dir := filepath.Dir(p.CompiledGoFiles[0])
	var b bytes.Buffer
	fmt.Fprintf(&b, "// Code generated by kcinstr; DO NOT EDIT.\n\npackage %s\n\n", p.Name)
	var ns []string
	for n := range names {
		ns = append(ns, n)
	}
	sort.Strings(ns)
	for _, n := range ns {
		obj := p.Types.Scope().Lookup(n)
		if obj == nil {
			continue
		}
		if conv[obj] {
			fmt.Fprintf(&b, "// DetsimSet%s sets the knob (true: it is a variable in this build).\nfunc DetsimSet%s(v int) bool { %s = v; return true }\n\n", n, n, n)
		} else {
			fmt.Fprintf(&b, "// DetsimSet%s: the constant could not be turned into a variable in this tree.\nfunc DetsimSet%s(v int) bool { return false }\n\n", n, n)
		}
	}
	os.WriteFile(filepath.Join(dir, "zz_detsim_knobs.go"), b.Bytes(), 0644)
}
