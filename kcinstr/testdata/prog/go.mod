module prog

go 1.18

require detsim v0.0.0

replace detsim => ../../../detsim
