package prog

import (
	"testing"

	"detsim"
)

func check(t *testing.T, r Result, mode string) {
	if r.Sum != 55+7+6+200+5 {
		t.Fatalf("%s: Sum=%d", mode, r.Sum)
	}
	if r.Labeled != 5 {
		t.Fatalf("%s: Labeled=%d", mode, r.Labeled)
	}
	if r.Timeouts != 2 {
		t.Fatalf("%s: Timeouts=%d", mode, r.Timeouts)
	}
	if r.Mutexed != 4+100+4 || len(r.Order) != 4 {
		t.Fatalf("%s: Mutexed=%d order=%v", mode, r.Mutexed, r.Order)
	}
}

func TestPassThrough(t *testing.T) { check(t, Run(), "pass-through") }

func TestSimulated(t *testing.T) {
	orders := map[int]bool{}
	for seed := int64(0); seed < 300; seed++ {
		var r Result
		res := detsim.Run(detsim.Config{Seed: seed, PermuteMaps: true, Strategy: detsim.Strategy{Kind: []string{"uniform", "pct", "sticky"}[seed%3], PCTDepth: 2, StickyPct: 70}}, func() { r = Run() })
		if res.Violation != nil || res.Infra != "" {
			t.Fatalf("seed %d: %+v %s", seed, res.Violation, res.Infra)
		}
		check(t, r, "simulated")
		orders[r.Order[0]*1000+r.Order[1]*100+r.Order[2]*10+r.Order[3]] = true
		res2 := detsim.Run(detsim.Config{Replay: true, Tape: res.Tape, Seed: seed, PermuteMaps: true}, func() { r = Run() })
		if res2.TraceHash != res.TraceHash {
			t.Fatalf("seed %d: replay differs", seed)
		}
	}
	if len(orders) < 6 {
		t.Fatalf("mutex acquisition orders explored: %d", len(orders))
	}
}
