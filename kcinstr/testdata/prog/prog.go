// Package prog exercises the constructs kcinstr must rewrite soundly; the
// test runs it instrumented under many seeds and compares with expectations.
package prog

import (
	"context"
	"math/rand"
	"sync"
	"sync/atomic"
	"time"
)

type Result struct {
	Sum      int
	Labeled  int
	Timeouts int
	Mutexed  int
	Order    []int
}

func worker(id int, in <-chan int, out chan<- int, wg *sync.WaitGroup) {
	defer wg.Done()
	for v := range in {
		out <- v * id
	}
}

func Run() Result {
	var res Result
	// fan-out / fan-in with WaitGroup, range over channel, close
	in := make(chan int)
	out := make(chan int, 4)
	var wg sync.WaitGroup
	for i := 1; i <= 3; i++ {
		wg.Add(1)
		go worker(1, in, out, &wg)
	}
	go func() {
		for i := 1; i <= 10; i++ {
			in <- i
		}
		close(in)
	}()
	go func() {
		wg.Wait()
		close(out)
	}()
	for v := range out {
		res.Sum += v
	}

	// labeled select with break/continue to labels, nested selects, default
	tick := time.NewTicker(10 * time.Millisecond)
	defer tick.Stop()
	stop := time.After(55 * time.Millisecond)
	ctrl := make(chan int, 1)
outer:
	for {
	inner:
		select {
		case <-tick.C:
			res.Labeled++
			select {
			case ctrl <- res.Labeled:
			default:
				break inner
			}
			continue outer
		case v := <-ctrl:
			if v > 3 {
				break inner
			}
		case <-stop:
			break outer
		}
	}

	// context.WithTimeout / WithDeadline on the simulated clock
	ctx, cancel := context.WithTimeout(context.Background(), 30*time.Millisecond)
	defer cancel()
	never := make(chan struct{})
	select {
	case <-never:
	case <-ctx.Done():
		if ctx.Err() == context.DeadlineExceeded {
			res.Timeouts++
		}
	}
	ctx2, cancel2 := context.WithDeadline(context.Background(), time.Now().Add(time.Hour))
	cancel2()
	<-ctx2.Done()
	if ctx2.Err() == context.Canceled {
		res.Timeouts++
	}

	// mutex held across a channel operation, RWMutex, Once, atomic
	var mu sync.Mutex
	var rw sync.RWMutex
	var once sync.Once
	var cnt int64
	gate := make(chan struct{})
	var wg2 sync.WaitGroup
	for i := 0; i < 4; i++ {
		wg2.Add(1)
		go func(i int) {
			defer wg2.Done()
			mu.Lock()
			<-gate // held across a park
			res.Mutexed++
			res.Order = append(res.Order, i)
			mu.Unlock()
			rw.RLock()
			atomic.AddInt64(&cnt, 1)
			rw.RUnlock()
			once.Do(func() { res.Mutexed += 100 })
		}(i)
	}
	for i := 0; i < 4; i++ {
		gate <- struct{}{}
	}
	wg2.Wait()
	res.Mutexed += int(atomic.LoadInt64(&cnt))

	// non-blocking send on an unbuffered channel with a ready receiver (rendezvous + default)
	sync2 := make(chan int)
	got := make(chan int, 1)
	go func() { got <- <-sync2 }()
	time.Sleep(time.Millisecond)
	select {
	case sync2 <- 7:
	default:
		res.Sum += 1000 // receiver was parked: must not happen
	}
	res.Sum += <-got

	// sync.Cond and sync.Map
	var cmu sync.Mutex
	cond := sync.NewCond(&cmu)
	ready := false
	var sm sync.Map
	waiters := 3
	var wg3 sync.WaitGroup
	for i := 0; i < waiters; i++ {
		wg3.Add(1)
		go func(i int) {
			defer wg3.Done()
			cmu.Lock()
			for !ready {
				cond.Wait()
			}
			cmu.Unlock()
			sm.Store(i, i*i)
		}(i)
	}
	time.Sleep(time.Millisecond)
	cmu.Lock()
	ready = true
	cond.Broadcast()
	cmu.Unlock()
	wg3.Wait()
	sm.Range(func(k, v interface{}) bool { res.Sum += v.(int); return true }) // 0+1+4

	// map range with deletion, rand
	m := map[string]int{"a": 1, "b": 2, "c": 3}
	for k, v := range m {
		if v == 2 {
			delete(m, k)
		}
		res.Sum += v
	}
	res.Sum += len(m) * 100
	_ = rand.Intn(10)
	return res
}
