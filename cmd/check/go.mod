module kccheck

go 1.21
