// check is the driver of the kcache deterministic-simulation checks.
//
//	check <ID> [--tier quick|thorough] [--replay file] [--runs N] [--budget sec] [--workers N]
//
// It fingerprints /repo's working tree, builds (or reuses) the instrumented
// worker for exactly that tree, runs seeded simulated executions on all cores,
// confirms and minimises any violation, writes the replay file and the evidence
// file.  Exit 0 = property held on everything explored, 1 = VIOLATION, 2 =
// infrastructure problem (never reported as a violation, never as a pass).
package main

import (
	"crypto/sha256"
	"encoding/hex"
	"encoding/json"
	"flag"
	"fmt"
	"io"
	"os"
	"os/exec"
	"path/filepath"
	"regexp"
	"runtime"
	"sort"
	"strconv"
	"strings"
	"sync"
	"time"
)

var verifDir = "/verif"
var repoDir = "/repo"

type propCfg struct {
	Title        string
	QuickRuns    int
	ThoroughRuns int
	QuickSec     float64
	ThoroughSec  float64
	Yield        string // files that get statement-level yields
	Owner        string // files whose structs are actor-owned (race tracker)
	Technique    string
	Faults       []string
}

var cleanup []func()

func exit(code int) {
	for _, f := range cleanup {
		f()
	}
	os.Exit(code)
}

func infra(format string, args ...interface{}) {
	fmt.Fprintf(os.Stderr, "check: INFRA: "+format+"\n", args...)
	exit(2)
}

func fingerprint(root string, extra ...string) string {
	h := sha256.New()
	var files []string
	filepath.Walk(root, func(p string, info os.FileInfo, err error) error {
		if err != nil {
			return nil
		}
		name := info.Name()
		if info.IsDir() {
			if name == ".git" || name == "_example" || name == "bin" || name == "evidence" || name == "replays" || name == "seeded" {
				return filepath.SkipDir
			}
			return nil
		}
		if strings.HasSuffix(name, ".go") || name == "go.mod" || name == "go.sum" || strings.HasSuffix(name, ".sh") {
			files = append(files, p)
		}
		return nil
	})
	sort.Strings(files)
	for _, f := range files {
		b, err := os.ReadFile(f)
		if err != nil {
			continue
		}
		rel, _ := filepath.Rel(root, f)
		fmt.Fprintf(h, "%s\x00%d\x00", rel, len(b))
		h.Write(b)
	}
	for _, e := range extra {
		fmt.Fprintf(h, "extra:%s\x00", e)
	}
	return hex.EncodeToString(h.Sum(nil))[:20]
}

func scratchRoot() string {
	if d := os.Getenv("VERIF_SCRATCH"); d != "" {
		return d
	}
	return filepath.Join(os.TempDir(), "kcverif")
}

// trimGoCache: every build of a changed tree leaves ~40 MB of compiled packages
// and a linked worker in the Go build cache; hundreds of builds (a day of
// running the checks against modified trees) fill the disk.  If the cache looks
// larger than ~30 GB (one of its 256 shards is measured) it is emptied; the
// next build then recompiles the dependencies (about a minute).
func trimGoCache() {
	out, err := exec.Command("go", "env", "GOCACHE").Output()
	if err != nil {
		return
	}
	dir := strings.TrimSpace(string(out))
	if dir == "" || dir == "off" {
		return
	}
	var shard int64
	filepath.Walk(filepath.Join(dir, "00"), func(_ string, fi os.FileInfo, err error) error {
		if err == nil && !fi.IsDir() {
			shard += fi.Size()
		}
		return nil
	})
	if shard*256 > 30<<30 {
		fmt.Fprintf(os.Stderr, "check: the Go build cache holds about %d GB: emptying it\n", shard*256>>30)
		exec.Command("go", "clean", "-cache").Run()
	}
}

// ensureBuild returns the directory holding the worker built from the current trees.
func ensureBuild(yield, owner string) (dir string, fp string) {
	repoFP := fingerprint(repoDir)
	toolFP := fingerprint(verifDir)
	fp = repoFP
	key := fingerprint("/nonexistent", repoFP, toolFP, yield, owner)
	root := scratchRoot()
	os.MkdirAll(root, 0755)
	dir = filepath.Join(root, "build-"+key)
	if _, err := os.Stat(filepath.Join(dir, "worker")); err == nil {
		os.Chtimes(dir, time.Now(), time.Now())
		return dir, fp
	}
	trimGoCache()
	tmp, err := os.MkdirTemp(root, "tmpbuild-")
	if err != nil {
		infra("mkdir temp: %v", err)
	}
	cleanup = append(cleanup, func() { os.RemoveAll(tmp) })
	defer os.RemoveAll(tmp)
	cmd := exec.Command(filepath.Join(verifDir, "build_sim.sh"), filepath.Join(tmp, "t"))
	cmd.Env = append(os.Environ(), "VERIF_YIELD="+yield, "VERIF_OWNER="+owner, "VERIF_REPO="+repoDir)
	out, err := cmd.CombinedOutput()
	if err != nil {
		fmt.Fprintf(os.Stderr, "%s\n", out)
		infra("building the instrumented tree failed: %v", err)
	}
	final := filepath.Join(tmp, "final")
	os.MkdirAll(final, 0755)
	for _, f := range []string{"worker", "sites.txt"} {
		if err := os.Rename(filepath.Join(tmp, "t", f), filepath.Join(final, f)); err != nil {
			infra("collect %s: %v", f, err)
		}
	}
	if err := os.Rename(final, dir); err != nil {
		if _, err2 := os.Stat(filepath.Join(dir, "worker")); err2 != nil {
			infra("install build: %v", err)
		}
	}
	// keep only the three most recent builds
	ents, _ := os.ReadDir(root)
	type ent struct {
		p string
		t time.Time
	}
	var builds []ent
	for _, e := range ents {
		if strings.HasPrefix(e.Name(), "build-") {
			if fi, err := e.Info(); err == nil {
				builds = append(builds, ent{filepath.Join(root, e.Name()), fi.ModTime()})
			}
		}
	}
	sort.Slice(builds, func(i, j int) bool { return builds[i].t.After(builds[j].t) })
	for i, b := range builds {
		if i >= 3 && b.p != dir {
			os.RemoveAll(b.p)
		}
	}
	return dir, fp
}

type workerStats struct {
	Runs       int            `json:"runs"`
	Violations []string       `json:"violations"`
	Infra      []string       `json:"infra"`
	Steps      int64          `json:"steps"`
	SimNanos   int64          `json:"sim_nanos"`
	SimSecs    float64        `json:"sim_secs"`
	Decisions  int64          `json:"decisions"`
	Contended  int64          `json:"contended"`
	TimerFires int64          `json:"timer_fires"`
	Stalls     int64          `json:"stalls"`
	MaxG       int            `json:"max_goroutines"`
	MaxSteps   int            `json:"max_steps_in_a_run"`
	Counters   map[string]int `json:"counters"`
	CaseHits   map[string]int `json:"case_hits"`
	Sched      []uint64       `json:"sched_hashes"`
	Nontrivial []uint64       `json:"nontrivial_hashes"`
	Strategies map[string]int `json:"strategies"`
	Samples    []interface{}  `json:"samples"`
	WallS      float64        `json:"wall_s"`
	Classes    map[string]int `json:"violation_classes"`
}

type replayFile struct {
	Property    string          `json:"property"`
	Class       string          `json:"class"`
	Detail      string          `json:"detail"`
	Seed        int64           `json:"seed"`
	Run         int             `json:"run"`
	Scenario    json.RawMessage `json:"scenario"`
	Tape        []int           `json:"tape"`
	Trace       []string        `json:"trace"`
	ShrinkStats string          `json:"shrink_stats"`
}

type knownFinding struct {
	ID       string `json:"id"`
	Property string `json:"property"` // property id or "*"
	Class    string `json:"class"`    // regexp on the violation class
	Match    string `json:"match"`    // regexp on detail + trace of the minimised replay
	Status   string `json:"status"`   // open | fixed
	What     string `json:"what"`
	Commit   string `json:"commit,omitempty"`
}

func loadKnown() []knownFinding {
	b, err := os.ReadFile(filepath.Join(verifDir, "known_findings.json"))
	if err != nil {
		return nil
	}
	var k struct {
		Findings []knownFinding `json:"findings"`
	}
	if err := json.Unmarshal(b, &k); err != nil {
		infra("known_findings.json: %v", err)
	}
	return k.Findings
}

func matchKnown(known []knownFinding, prop string, rp *replayFile) *knownFinding {
	text := rp.Detail + "\n" + strings.Join(rp.Trace, "\n")
	for i := range known {
		k := &known[i]
		if k.Status != "open" {
			continue
		}
		if k.Property != "*" && k.Property != prop {
			continue
		}
		if ok, _ := regexp.MatchString("^(?:"+k.Class+")$", rp.Class); !ok {
			continue
		}
		if k.Match != "" {
			if ok, _ := regexp.MatchString(k.Match, text); !ok {
				continue
			}
		}
		return k
	}
	return nil
}

func runCmd(timeout time.Duration, name string, args ...string) (string, int) {
	cmd := exec.Command(name, args...)
	var buf strings.Builder
	cmd.Stdout = &buf
	cmd.Stderr = &buf
	if err := cmd.Start(); err != nil {
		return err.Error(), 2
	}
	done := make(chan error, 1)
	go func() { done <- cmd.Wait() }()
	select {
	case err := <-done:
		if err != nil {
			if ee, ok := err.(*exec.ExitError); ok {
				return buf.String(), ee.ExitCode()
			}
			return buf.String() + err.Error(), 2
		}
		return buf.String(), 0
	case <-time.After(timeout):
		cmd.Process.Kill()
		return buf.String() + "\n(timeout)", 2
	}
}

func main() {
	tier := flag.String("tier", "", "quick|thorough (default $VERIF_TIER or quick)")
	replay := flag.String("replay", "", "replay file")
	runsFlag := flag.Int("runs", 0, "override the number of runs")
	budgetFlag := flag.Float64("budget", 0, "override the wall-clock budget for the search (seconds)")
	workersFlag := flag.Int("workers", 0, "number of worker processes (default: all cores)")
	keep := flag.Bool("keep", false, "keep the work directory")
	var id string
	args := os.Args[1:]
	if len(args) > 0 && !strings.HasPrefix(args[0], "-") {
		id = args[0]
		args = args[1:]
	}
	flag.CommandLine.Parse(args)
	if id == "" && flag.NArg() > 0 {
		id = flag.Arg(0)
	}
	if v := os.Getenv("VERIF_DIR"); v != "" {
		verifDir = v
	}
	if v := os.Getenv("VERIF_REPO"); v != "" {
		repoDir = v
	}
	cfg, ok := props[id]
	if !ok {
		infra("unknown property %q", id)
	}
	if *tier == "" {
		*tier = os.Getenv("VERIF_TIER")
	}
	if *tier == "" {
		*tier = "quick"
	}
	if *tier != "quick" && *tier != "thorough" {
		infra("unknown tier %q", *tier)
	}
	seed := int64(1)
	if v := os.Getenv("VERIF_SEED"); v != "" {
		n, err := strconv.ParseInt(v, 10, 64)
		if err != nil {
			infra("VERIF_SEED=%q is not an integer", v)
		}
		seed = n
	}
	start := time.Now()
	buildDir, fp := ensureBuild(cfg.Yield, cfg.Owner)
	worker := filepath.Join(buildDir, "worker")
	buildS := time.Since(start).Seconds()

	if *replay != "" {
		out, code := runCmd(5*time.Minute, worker, "-replay", *replay, "-trace")
		fmt.Print(out)
		switch code {
		case 0:
			fmt.Printf("replay: the current tree does not fail on %s\n", *replay)
			exit(0)
		case 1, 3, 4:
			fmt.Printf("VIOLATION property=%s replay=%s\n", id, *replay)
			exit(1)
		}
		infra("replay failed (exit %d)", code)
	}

	runs, budget := cfg.QuickRuns, cfg.QuickSec
	if *tier == "thorough" {
		runs, budget = cfg.ThoroughRuns, cfg.ThoroughSec
	}
	if *runsFlag > 0 {
		runs = *runsFlag
	}
	if *budgetFlag > 0 {
		budget = *budgetFlag
	}
	nw := runtime.NumCPU()
	if nw > 16 {
		nw = 16
	}
	if *workersFlag > 0 {
		nw = *workersFlag
	}
	work, err := os.MkdirTemp(scratchRoot(), "run-"+id+"-")
	if err != nil {
		infra("mkdir: %v", err)
	}
	if !*keep {
		cleanup = append(cleanup, func() { os.RemoveAll(work) })
	}

	var wg sync.WaitGroup
	codes := make([]int, nw)
	outs := make([]string, nw)
	for w := 0; w < nw; w++ {
		wg.Add(1)
		go func(w int) {
			defer wg.Done()
			outs[w], codes[w] = runCmd(time.Duration(budget+120)*time.Second, worker,
				"-prop", id, "-tier", *tier, "-seed", strconv.FormatInt(seed, 10),
				"-from", strconv.Itoa(w), "-to", strconv.Itoa(runs), "-stride", strconv.Itoa(nw),
				"-out", filepath.Join(work, fmt.Sprintf("stats-%d.json", w)), "-faildir", work, "-maxfail", "3",
				"-budget", fmt.Sprintf("%.0f", budget), "-fingerprint", fp)
		}(w)
	}
	wg.Wait()
	for w := 0; w < nw; w++ {
		if codes[w] != 0 {
			fmt.Fprintf(os.Stderr, "%s\n", outs[w])
			infra("worker %d exited with status %d", w, codes[w])
		}
	}
	// merge
	total := workerStats{Counters: map[string]int{}, CaseHits: map[string]int{}, Strategies: map[string]int{}, Classes: map[string]int{}}
	sched := map[uint64]bool{}
	nontriv := map[uint64]bool{}
	var failFiles []string
	for w := 0; w < nw; w++ {
		b, err := os.ReadFile(filepath.Join(work, fmt.Sprintf("stats-%d.json", w)))
		if err != nil {
			infra("worker %d wrote no statistics", w)
		}
		var st workerStats
		if err := json.Unmarshal(b, &st); err != nil {
			infra("worker %d statistics: %v", w, err)
		}
		total.Runs += st.Runs
		total.Steps += st.Steps
		total.SimNanos += st.SimNanos
		total.SimSecs += st.SimSecs
		total.Decisions += st.Decisions
		total.Contended += st.Contended
		total.TimerFires += st.TimerFires
		total.Stalls += st.Stalls
		if st.MaxG > total.MaxG {
			total.MaxG = st.MaxG
		}
		if st.MaxSteps > total.MaxSteps {
			total.MaxSteps = st.MaxSteps
		}
		for k, v := range st.Counters {
			total.Counters[k] += v
		}
		for k, v := range st.CaseHits {
			total.CaseHits[k] += v
		}
		for k, v := range st.Strategies {
			total.Strategies[k] += v
		}
		for k, v := range st.Classes {
			total.Classes[k] += v
		}
		for _, h := range st.Sched {
			sched[h] = true
		}
		for _, h := range st.Nontrivial {
			nontriv[h] = true
		}
		if len(total.Samples) < 3 {
			total.Samples = append(total.Samples, st.Samples...)
		}
		failFiles = append(failFiles, st.Violations...)
	}
	if len(total.Samples) > 3 {
		total.Samples = total.Samples[:3]
	}
	searchS := time.Since(start).Seconds() - buildS

	// violations: one representative per class, minimised and confirmed
	known := loadKnown()
	sort.Strings(failFiles)
	byClass := map[string][]string{}
	var classes []string
	for _, f := range failFiles {
		b, err := os.ReadFile(f)
		if err != nil {
			infra("read %s: %v", f, err)
		}
		var rp replayFile
		json.Unmarshal(b, &rp)
		if _, seen := byClass[rp.Class]; !seen {
			classes = append(classes, rp.Class)
		}
		byClass[rp.Class] = append(byClass[rp.Class], f)
	}
	sort.Strings(classes)
	shrinkBudget := 25.0
	if *tier == "thorough" {
		shrinkBudget = 240
	}
	if len(classes) > 0 {
		shrinkBudget /= float64(len(classes))
		if shrinkBudget < 5 {
			shrinkBudget = 5
		}
	}
	os.MkdirAll(filepath.Join(verifDir, "replays"), 0755)
	var violationLines, knownLines []string
	var shrinkNotes []string
	var infraNotes []string
	for ci, class := range classes {
		if ci >= 6 {
			break
		}
		f := byClass[class][0]
		min := filepath.Join(work, fmt.Sprintf("min-%d.json", ci))
		out, code := "step-limit failures are not minimised (every candidate runs to the limit)", 9
		if class != "steplimit" {
			out, code = runCmd(time.Duration(shrinkBudget+60)*time.Second, worker, "-shrink", f, "-shrink-budget", fmt.Sprintf("%.0f", shrinkBudget), "-out", min)
		}
		if code == 0 {
			shrinkNotes = append(shrinkNotes, strings.TrimSpace(out))
			// replay the minimised file in a fresh process: must fail the same way
			out, code = runCmd(5*time.Minute, worker, "-replay", min)
			if code != 1 {
				// the minimised scenario failed inside the shrinking process but not
				// in a fresh one: the code under test keeps state across runs of one
				// process (a package-level variable), which the shrinker's many
				// candidate runs accumulate.  The unminimised failure was found by a
				// search worker too, so it gets the same fresh-process confirmation.
				fmt.Fprintf(os.Stderr, "check: the minimised replay of class %q does not reproduce in a fresh process (exit %d); trying the unminimised failure\n", class, code)
				rout, rcode := runCmd(10*time.Minute, worker, "-replay", f, "-out", min)
				if rcode != 1 {
					fmt.Fprintf(os.Stderr, "%s\n%s\n", out, rout)
					infraNotes = append(infraNotes, fmt.Sprintf("neither the minimised nor the unminimised failure of class %q reproduces in a fresh process (exit %d / %d): state carried across runs or simulator nondeterminism, not a confirmed property violation", class, code, rcode))
					continue
				}
				shrinkNotes = append(shrinkNotes, fmt.Sprintf("class %s: minimised scenario not stable across processes, unminimised replay confirmed", class))
			}
		} else {
			// minimisation failed or ran out of time (e.g. every candidate runs into
			// the step limit): fall back to the unminimised failure, which must at
			// least replay exactly from its own tape in a fresh process
			fmt.Fprintf(os.Stderr, "check: minimisation of class %q failed (exit %d); using the unminimised failure\n%s\n", class, code, out)
			rout, rcode := runCmd(10*time.Minute, worker, "-replay", f, "-out", min)
			if rcode != 1 {
				fmt.Fprintf(os.Stderr, "%s\n", rout)
				infraNotes = append(infraNotes, fmt.Sprintf("a failure of class %q does not reproduce from its own tape (exit %d): simulator nondeterminism, not a property violation", class, rcode))
				continue
			}
			shrinkNotes = append(shrinkNotes, fmt.Sprintf("class %s: not minimised (exit %d), unminimised replay confirmed", class, code))
		}
		b, _ := os.ReadFile(min)
		var rp replayFile
		json.Unmarshal(b, &rp)
		if k := matchKnown(known, id, &rp); k != nil {
			knownLines = append(knownLines, fmt.Sprintf("KNOWN-FINDING: property=%s %s: %s (class %s, %d of %d runs)", id, k.ID, k.What, class, total.Classes[class], total.Runs))
			continue
		}
		safe := regexp.MustCompile(`[^A-Za-z0-9_.-]+`).ReplaceAllString(class, "_")
		if len(safe) > 60 {
			safe = safe[:60]
		}
		dst := filepath.Join(verifDir, "replays", fmt.Sprintf("%s-%s-seed%d-run%d.json", id, safe, seed, rp.Run))
		if err := copyFile(min, dst); err != nil {
			infra("write replay: %v", err)
		}
		violationLines = append(violationLines, fmt.Sprintf("VIOLATION property=%s replay=%s", id, dst))
		fmt.Printf("violation class=%s (%d of %d runs)\n%s\n", class, total.Classes[class], total.Runs, indent(rp.Detail))
	}

	wall := time.Since(start).Seconds()
	writeEvidence(id, cfg, *tier, seed, &total, len(sched), len(nontriv), wall, buildS, searchS, len(violationLines), knownLines, shrinkNotes, buildDir, nw, fp)

	fmt.Printf("check %s tier=%s seed=%d: %d runs, %d steps, %.1f s simulated, %d distinct schedules (%d non-trivial), %d workers, %.1fs wall (build %.1fs)\n",
		id, *tier, seed, total.Runs, total.Steps, total.SimSecs, len(sched), len(nontriv), nw, wall, buildS)
	for _, l := range knownLines {
		fmt.Println(l)
	}
	for _, l := range violationLines {
		fmt.Println(l)
	}
	if len(violationLines) > 0 {
		exit(1)
	}
	if len(infraNotes) > 0 {
		// something failed but nothing could be confirmed: neither a pass nor a violation
		infra("%s", strings.Join(infraNotes, "; "))
	}
	exit(0)
}

func indent(s string) string {
	if len(s) > 4000 {
		s = s[:4000] + "\n..."
	}
	return "    " + strings.ReplaceAll(s, "\n", "\n    ")
}

func copyFile(src, dst string) error {
	in, err := os.Open(src)
	if err != nil {
		return err
	}
	defer in.Close()
	out, err := os.Create(dst)
	if err != nil {
		return err
	}
	defer out.Close()
	_, err = io.Copy(out, in)
	return err
}

func writeEvidence(id string, cfg propCfg, tier string, seed int64, t *workerStats, nsched, nnontriv int, wall, buildS, searchS float64, nviol int, knownLines, shrinkNotes []string, buildDir string, nw int, fp string) {
	faults := map[string]int{}
	probes := map[string]int{}
	other := map[string]int{}
	for k, v := range t.Counters {
		switch {
		case strings.HasPrefix(k, "fault:"):
			faults[strings.TrimPrefix(k, "fault:")] = v
		case strings.HasPrefix(k, "probe:"):
			probes[strings.TrimPrefix(k, "probe:")] = v
		default:
			other[k] = v
		}
	}
	// select-case coverage of the instrumented library
	var allSites []string
	if b, err := os.ReadFile(filepath.Join(buildDir, "sites.txt")); err == nil {
		for _, l := range strings.Split(strings.TrimSpace(string(b)), "\n") {
			if l != "" {
				allSites = append(allSites, l)
			}
		}
	}
	hit := 0
	var never []string
	var libSites []string
	for _, l := range allSites {
		if !strings.HasPrefix(l, "main/") { // generator programs (types/gen, join/gen) are not part of the library
			libSites = append(libSites, l)
		}
	}
	allSites = libSites
	for _, l := range allSites {
		key := strings.Fields(l)[0]
		if t.CaseHits[key] > 0 {
			hit++
		} else if !strings.Contains(key, "/generated") || strings.HasPrefix(key, "pod/") || strings.HasPrefix(key, "join/") {
			never = append(never, l)
		}
	}
	if len(never) > 60 {
		never = append(never[:60], fmt.Sprintf("... and %d more", len(never)-60))
	}
	var zeroProbes []string
	for _, p := range cfg.Faults {
		if faults[p] == 0 {
			zeroProbes = append(zeroProbes, p)
		}
	}
	perHour := 0.0
	if searchS > 0 {
		perHour = float64(t.Runs) / searchS * 3600
	}
	samples := t.Samples
	if len(samples) == 0 {
		samples = []interface{}{"no clean run completed (every run violated the property)"}
	}
	ev := map[string]interface{}{
		"property_id": id,
		"tier":        tier,
		"seed":        seed,
		"level":       "exploration",
		"wall_s":      wall,
		"violations":  nviol,
		"coverage": map[string]interface{}{
			"evaluations":         t.Runs,
			"distinct_nontrivial": nnontriv,
			"rule": "one evaluation = one simulated execution (scenario generated from (VERIF_SEED, run index), every scheduling/fault decision drawn by the simulator). " +
				"distinct = distinct schedule fingerprint (hash of the sequence of (goroutine kind, source site, chosen select case) decisions); " +
				"non-trivial = the family-specific rule held (workload present and more than 10 contended scheduling decisions, i.e. decisions with >= 2 enabled candidates); counted, not assumed",
			"samples":                       samples,
			"distinct_schedules":            nsched,
			"runs_per_hour":                 perHour,
			"seeds_per_hour":                perHour,
			"simulated_time_s":              t.SimSecs,
			"scheduler_steps":               t.Steps,
			"decisions_recorded":            t.Decisions,
			"contended_decisions":           t.Contended,
			"steps_per_run_mean":            float64(t.Steps) / float64(max1(t.Runs)),
			"steps_per_run_max":             t.MaxSteps,
			"max_live_goroutines":           t.MaxG,
			"timer_fires":                   t.TimerFires,
			"stall_moves":                   t.Stalls,
			"faults_fired":                  faults,
			"fault_kinds_configured_never_fired": zeroProbes,
			"probes":                        probes,
			"other_counters":                other,
			"strategy_mix":                  t.Strategies,
			"select_cases_total":            len(allSites),
			"select_cases_fired":            hit,
			"select_cases_never_fired":      never,
			"violation_classes":             t.Classes,
			"known_findings_matched":        knownLines,
			"shrink":                        shrinkNotes,
			"workers":                       nw,
			"build_s":                       buildS,
			"search_s":                      searchS,
			"code_fingerprint":              fp,
			"technique":                     cfg.Technique,
			"components_real":               []string{"all kcache packages (instrumented copy of /repo's working tree)", "github.com/boz/go-lifecycle (instrumented copy)", "k8s.io/apimachinery meta/runtime/labels/watch helpers (unmodified)"},
			"components_stub":               []string{"API server (world.Server: versioned store, event log, watch replay, 410 on compaction)", "client-go REST/HTTP layer (never in the loop; in the client probe of C20 client-go's request construction runs for real, uninstrumented and sequential, over a scripted in-process http.RoundTripper)", "logger (recording, optional preemption point)", "Go scheduler, timers, math/rand (detsim)"},
		},
		"assumptions": []string{
			"sampling, not proof: a clean batch is evidence for the explored schedules/faults/histories only",
			"code between two synchronisation points is atomic in the simulator unless statement-level yields are enabled for the file",
			"the simulated API server follows the list/watch contract as kcache uses it; client-go transport is outside",
			"the AST rewrite preserves semantics (validated by running the repository's own tests against the rewritten tree in pass-through mode)",
		},
	}
	b, _ := json.MarshalIndent(ev, "", " ")
	os.MkdirAll(filepath.Join(verifDir, "evidence"), 0755)
	if err := os.WriteFile(filepath.Join(verifDir, "evidence", id+".json"), b, 0644); err != nil {
		infra("write evidence: %v", err)
	}
}

func max1(n int) int {
	if n < 1 {
		return 1
	}
	return n
}
