package main

var watchFaults = []string{"watch-connect-error", "watch-close-mid", "watch-close-after-burst", "watch-close-idle", "watch-status-frame", "watch-bookmark"}

var props = map[string]propCfg{
	"C01": {Title: "cache content is the accepted newest-version view", QuickRuns: 60000, ThoroughRuns: 6000000, QuickSec: 40, ThoroughSec: 900,
		Technique: "deterministic simulation of the cache actor: seeded operation sequences + one-step alphabet sweep, reference-model refinement, panic/wedge detection"},
	"C02": {Title: "events are an exact minimal well-formed delta", QuickRuns: 60000, ThoroughRuns: 6000000, QuickSec: 40, ThoroughSec: 900,
		Technique: "deterministic simulation of the cache actor: strict event replay between consecutive contents, event multiset vs reference delta"},
	"C03": {Title: "controller converges at every relist", QuickRuns: 6000, ThoroughRuns: 600000, QuickSec: 40, ThoroughSec: 900,
		Technique: "deterministic simulation: seeded schedules + API-server fault injection, convergence/mirror/protocol oracles",
		Faults:    append([]string{"watch-drop", "watch-dup", "watch-replay", "watch-badobj", "watch-connect-hang", "watch-connect-delay"}, watchFaults...)},
	"C04": {Title: "watch continuity across reconnects", QuickRuns: 8000, ThoroughRuns: 800000, QuickSec: 40, ThoroughSec: 900,
		Technique: "deterministic simulation: relist disabled, watch faults at every history position, starve strategies, convergence within the retry delay",
		Faults:    watchFaults},
}
