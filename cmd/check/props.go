package main

var watchFaults = []string{"watch-connect-error", "watch-close-mid", "watch-close-after-burst", "watch-close-idle", "watch-status-frame", "watch-bookmark"}

var props = map[string]propCfg{
	"C05": {Title: "subscribers see the published sequence in order exactly once", QuickRuns: 8000, ThoroughRuns: 800000, QuickSec: 40, ThoroughSec: 900,
		Technique: "deterministic simulation: Subscribe/Clone trees with late subscribers, perturbed logger/map order, pairwise sequence + suffix + cache-not-older oracles"},
	"C06": {Title: "filtered node == filter applied to parent", QuickRuns: 8000, ThoroughRuns: 800000, QuickSec: 40, ThoroughSec: 900,
		Technique: "deterministic simulation: nested filtered subscriptions/clones, racing Refilters, label-moving histories, relists; cache == filter(parent cache) at quiescence"},
	"C10": {Title: "slow consumers are isolated", QuickRuns: 6000, ThoroughRuns: 600000, QuickSec: 40, ThoroughSec: 900,
		Technique: "deterministic simulation: stalled/slow readers and blocking handlers, small buffers, long streams; healthy siblings complete, stalled ones lose only what exceeds their buffer"},
	"C11": {Title: "shutdown cascades down only", QuickRuns: 8000, ThoroughRuns: 800000, QuickSec: 40, ThoroughSec: 900,
		Technique: "deterministic simulation: mixed trees depth 4 under traffic, close of any node by any mechanism at a drawn instant; Done exactly for the subtree, survivors functional"},
	"C12": {Title: "termination is clean", QuickRuns: 8000, ThoroughRuns: 800000, QuickSec: 40, ThoroughSec: 900,
		Technique: "deterministic simulation: shutdown-point sweep (trigger at scheduler step k), bounded Close, goroutine-leak registry, API calls around shutdown",
		Faults: []string{"watch-connect-error", "watch-connect-hang", "watch-connect-delay", "watch-close-mid", "watch-close-idle", "list-hang"}},
	"C14": {Title: "list failures fail-stop, watch failures never fatal", QuickRuns: 6000, ThoroughRuns: 600000, QuickSec: 40, ThoroughSec: 900,
		Technique: "deterministic simulation: list failure kind x position enumerated, watch failure kinds at every position; fail-stop with cause vs. never fatal"},
	"C16": {Title: "monitor callbacks", QuickRuns: 8000, ThoroughRuns: 800000, QuickSec: 40, ThoroughSec: 900,
		Technique: "deterministic simulation: monitors with slow handlers, closes before/after readiness; init-first-once, serial, replay == cache, silent after Done"},
	"C01": {Title: "cache content is the accepted newest-version view", QuickRuns: 60000, ThoroughRuns: 6000000, QuickSec: 40, ThoroughSec: 900,
		Technique: "deterministic simulation of the cache actor: seeded operation sequences + one-step alphabet sweep, reference-model refinement, panic/wedge detection"},
	"C02": {Title: "events are an exact minimal well-formed delta", QuickRuns: 60000, ThoroughRuns: 6000000, QuickSec: 40, ThoroughSec: 900,
		Technique: "deterministic simulation of the cache actor: strict event replay between consecutive contents, event multiset vs reference delta"},
	"C03": {Title: "controller converges at every relist", QuickRuns: 6000, ThoroughRuns: 600000, QuickSec: 40, ThoroughSec: 900,
		Technique: "deterministic simulation: seeded schedules + API-server fault injection, convergence/mirror/protocol oracles",
		Faults:    append([]string{"watch-drop", "watch-dup", "watch-replay", "watch-badobj", "watch-connect-hang", "watch-connect-delay"}, watchFaults...)},
	"C04": {Title: "watch continuity across reconnects", QuickRuns: 8000, ThoroughRuns: 800000, QuickSec: 40, ThoroughSec: 900,
		Technique: "deterministic simulation: relist disabled, watch faults at every history position, starve strategies, convergence within the retry delay",
		Faults:    watchFaults},
}
