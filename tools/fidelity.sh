#!/bin/bash
# Fidelity self-test of the AST rewrite: (1) detsim's own micro-suite (channel,
# select, timer, abort semantics; -race), (2) the repository's unedited test
# suite run against the INSTRUMENTED copy of /repo with the runtime in
# pass-through mode (real scheduler, real time): it must still pass.
set -u
V="$(cd "$(dirname "$0")/.." && pwd)"
export GOFLAGS=-mod=mod GOPROXY=off GOSUMDB=off GOTOOLCHAIN=local
( cd "$V/detsim" && go test -count=1 -race . ) || exit 1
S=$(mktemp -d /tmp/kcfid.XXXXXX)
trap 'rm -rf "$S"' EXIT
VERIF_YIELD=kcache/cache.go "$V/build_sim.sh" "$S/b" >/dev/null 2>&1 || { echo "fidelity: INFRA build failed"; exit 2; }
( cd "$S/b/kc" && go test -vet=off -count=1 ./... 2>&1 | grep -v "no test files" ) | tee "$S/out.txt"
if grep -q "^FAIL\|^---\|panic" "$S/out.txt"; then echo "fidelity: repository tests FAIL on the instrumented tree"; exit 1; fi
echo "fidelity: $(grep -c '^ok' "$S/out.txt") packages pass on the instrumented tree (pass-through mode, statement-level yields in cache.go)"
