#!/bin/bash
# Regression over all seeded defects: every one must be caught by the check of the
# property it was written against (and by the extra checks listed in its meta.json).
cd "$(dirname "$0")/.."
for d in seeded/S*/; do
  id=$(basename $d)
  python3 tools/seeded.py check $id 2>&1 | grep -E "CAUGHT|missed|INFRA" | cut -c1-200
done
