#!/bin/bash
# Determinism self-test of the simulator: for every property, run the same run
# indexes in separate processes under GOMAXPROCS 1 / 4 / 16, alone and with 16
# processes competing for the cores, and demand identical per-run trace hashes
# (the hash covers every scheduling decision, harness choice and observation).
# usage: determinism.sh [runs-per-property] [props...]
set -u
V="$(cd "$(dirname "$0")/.." && pwd)"
N="${1:-200}"; shift || true
PROPS="${*:-C01 C02 C03 C04 C05 C06 C07 C08 C09 C10 C11 C12 C13 C14 C15 C16 C20}"
export GOFLAGS=-mod=mod GOPROXY=off GOSUMDB=off GOTOOLCHAIN=local
S=$(mktemp -d /tmp/kcdet.XXXXXX)
trap 'rm -rf "$S"' EXIT
"$V/build_sim.sh" "$S/b" >/dev/null 2>&1 || { echo "determinism: INFRA build failed"; exit 2; }
VERIF_YIELD=kcache/cache.go "$V/build_sim.sh" "$S/by" >/dev/null 2>&1 || { echo "determinism: INFRA build failed"; exit 2; }
VERIF_YIELD=kcache/publisher.go "$V/build_sim.sh" "$S/bp" >/dev/null 2>&1 || { echo "determinism: INFRA build failed"; exit 2; }
W="$S/b/worker"
bad=0
for p in $PROPS; do
  w="$W"; [ "$p" = C15 ] && w="$S/by/worker"; [ "$p" = C05 ] && w="$S/bp/worker"
  "$w" -prop $p -seed 7 -from 0 -to $N -maxfail 100000 -hashes "$S/$p.a" -gomaxprocs 1 >/dev/null 2>&1
  "$w" -prop $p -seed 7 -from 0 -to $N -maxfail 100000 -hashes "$S/$p.b" -gomaxprocs 4 >/dev/null 2>&1
  # under load: 16 processes at once, each GOMAXPROCS 16, disjoint slices; then merged
  for k in $(seq 0 15); do
    "$w" -prop $p -seed 7 -from $k -to $N -stride 16 -maxfail 100000 -hashes "$S/$p.c$k" -gomaxprocs 16 >/dev/null 2>&1 &
  done
  wait
  cat "$S/$p".c* | sort -n > "$S/$p.c"
  sort -n "$S/$p.a" > "$S/$p.as"; sort -n "$S/$p.b" > "$S/$p.bs"
  if cmp -s "$S/$p.as" "$S/$p.bs" && cmp -s "$S/$p.as" "$S/$p.c"; then
    echo "determinism $p: $(wc -l < "$S/$p.as") runs x 3 executions identical (GOMAXPROCS 1, 4, 16 under load)"
  else
    echo "determinism $p: MISMATCH"; diff "$S/$p.as" "$S/$p.bs" | head -5; diff "$S/$p.as" "$S/$p.c" | head -5; bad=1
  fi
done
exit $bad
