#!/bin/bash
# Self-test of the instrumenter: a program that uses every construct kcinstr
# rewrites (labelled selects, break/continue to labels, nested selects, default
# + rendezvous, range over channels and maps, WaitGroup/Mutex/RWMutex/Once,
# tickers, context deadlines) must behave identically in pass-through mode and
# under 300 simulated schedules, and replay exactly.
set -e
V="$(cd "$(dirname "$0")/.." && pwd)"
export GOFLAGS=-mod=mod GOPROXY=off GOSUMDB=off GOTOOLCHAIN=local
S=$(mktemp -d /tmp/kcit.XXXXXX)
trap 'rm -rf "$S"' EXIT
mkdir -p "$S/a/b/c"
cp -r "$V/detsim" "$S/a/detsim"
cp -r "$V/kcinstr/testdata/prog" "$S/a/b/c/prog"
( cd "$V/kcinstr" && go build -o "$S/kcinstr" . )
"$S/kcinstr" -dir "$S/a/b/c/prog" .
( cd "$S/a/b/c/prog" && go test -count=1 . )
