#!/usr/bin/env python3
"""Evaluate a seeded defect kept under /verif/seeded/<id>/ (patch.diff, zz_demo_test.go, meta.json).
  seeded.py confirm <id>        - in a scratch worktree: patch applies, builds, existing suite passes,
                                  demo fails with the patch and passes without it
  seeded.py check <id> [props]  - apply patch to /repo, run the named checks (default: meta.property), undo
"""
import json, os, subprocess, sys, shutil, tempfile
ENV = dict(os.environ, GOFLAGS="-mod=mod", GOPROXY="off", GOSUMDB="off", GOTOOLCHAIN="local")
def sh(cmd, cwd=None, timeout=1800):
    r = subprocess.run(cmd, shell=True, cwd=cwd, env=ENV, capture_output=True, text=True, timeout=timeout)
    return r.returncode, r.stdout + r.stderr
def confirm(sid):
    d = "/verif/seeded/%s" % sid
    meta = json.load(open(d + "/meta.json"))
    wt = tempfile.mkdtemp(prefix="kcseed-", dir="/tmp")
    os.rmdir(wt)
    try:
        rc, out = sh("git -C /repo worktree add -q %s HEAD" % wt)
        assert rc == 0, out
        pkgdir = os.path.join(wt, meta.get("demo_dir", "."))
        demo = os.path.join(pkgdir, "zz_demo_test.go")
        shutil.copy(d + "/zz_demo_test.go", demo)
        res = {}
        rc, out = sh("go test -vet=off -count=1 -run TestSeededDemo .", cwd=pkgdir)
        res["demo_without_patch"] = "pass" if rc == 0 else "FAIL"
        rc, out = sh("git apply %s/patch.diff" % d, cwd=wt)
        assert rc == 0, "patch does not apply: " + out
        rc, out = sh("go build ./... ", cwd=wt)
        res["builds"] = rc == 0
        rc, out = sh("go test -vet=off -count=1 -run TestSeededDemo .", cwd=pkgdir)
        res["demo_with_patch"] = "fail" if rc != 0 else "PASS(!)"
        os.remove(demo)
        rc, out = sh("go test -vet=off -count=1 ./... 2>&1 | grep -v 'no test files'", cwd=wt)
        bad = [l for l in out.splitlines() if l.startswith(("FAIL", "---", "panic"))]
        res["existing_suite_with_patch"] = "pass" if not bad else "FAIL: " + "; ".join(bad[:3])
        print(sid, json.dumps(res))
        return res
    finally:
        sh("git -C /repo worktree remove --force %s" % wt)
        shutil.rmtree(wt, ignore_errors=True)
def check(sid, props):
    d = "/verif/seeded/%s" % sid
    meta = json.load(open(d + "/meta.json"))
    props = props or [meta["property"]]
    rc, out = sh("git -C /repo status --porcelain")
    assert out.strip() == "", "/repo is not clean"
    rc, out = sh("git -C /repo apply %s/patch.diff" % d)
    assert rc == 0, out
    results = {}
    try:
        for p in props:
            rc, out = sh("cd /verif && ./check %s --tier quick" % p)
            classes = [l.split("class=")[1] for l in out.splitlines() if l.startswith("violation class=")]
            results[p] = {"exit": rc, "caught": rc == 1, "classes": classes}
            print("%s on %s: %s %s" % (sid, p, "CAUGHT" if rc == 1 else ("missed" if rc == 0 else "INFRA(%d)" % rc), classes))
            if rc == 2:
                print(out[-1500:])
    finally:
        sh("git -C /repo checkout -- .")
        sh("rm -f /verif/replays/*.json")
    return results
if __name__ == "__main__":
    if sys.argv[1] == "confirm":
        confirm(sys.argv[2])
    else:
        check(sys.argv[2], sys.argv[3:])
