#!/usr/bin/env python3
"""Sensitivity harness: apply a hand-written mutation to /repo's working tree,
run checks, report which ones raise VIOLATION, revert (git checkout).
usage: mutate.py <mutation-name|all> [check ids...]"""
import subprocess, sys, os, re
R='/repo'
M = {
 'M1-no-version-compare-update': ('cache.go', "		case accept && current.version < entry.version:\n			// update", "		case accept:\n			// update", ['C01','C02']),
 'M3-distribute-initial-events': ('controller.go', "				close(c.readych)\n			} else {\n				c.distributeEvents(events)\n			}", "				close(c.readych)\n			}\n			c.distributeEvents(events)", ['C02','C05','C16']),
 'M4-ready-before-sync': ('controller.go', "			events, err := c.cache.sync(list)", "			if !initialized {\n				close(c.readych)\n			}\n			events, err := c.cache.sync(list)", ['C08']),
 'M5-async-distribute': ('publisher.go', "		sub.send(evt)", "		go sub.send(evt)", ['C05']),
 'M6-no-watch-reset': ('controller.go', "			if err := c.watcher.reset(version); err != nil {", "			if err := error(nil); initialized && false || !initialized && c.watcher.reset(version) != nil {", ['C03']),
 'M7-resume-from-list-version': ('watcher.go', "			curVersion = evt.Resource().GetResourceVersion()\n", "", ['C04']),
 'M8-watch-error-fatal': ('watcher.go', "			session.stop()\n			session = nullWatchSession{}\n			retry = w.scheduleRetry(retrych)", "			if err := session.Error(); err != nil {\n				w.lc.ShutdownInitiated(err)\n				break mainloop\n			}\n			session.stop()\n			session = nullWatchSession{}\n			retry = w.scheduleRetry(retrych)", ['C14','C04']),
 'M9-ignore-list-error': ('controller.go', "				c.lc.ShutdownInitiated(errors.Wrap(result.err, \"lister result\"))\n				break mainloop", "				continue", ['C14']),
 'M10-forget-filter': ('subscription_filter.go', "			s.filter = f\n\n			if !ready {", "\n			if !ready {", ['C06','C07']),
 'M11-refilter-always-unchanged': ('subscription_filter.go', "			isNew := !filter.FiltersEqual(s.filter, f)", "			isNew := !filter.FiltersEqual(s.filter, f) && !ready", ['C06','C07']),
 'M13-lister-no-wait': ('lister.go', "	<-ticker.Done()\n	<-donech", "	<-ticker.Done()\n	_ = donech", ['C12']),
 'M14-list-bypasses-actor': ('cache.go', "func (c *_cache) List() ([]metav1.Object, error) {\n	resultch := make(chan []metav1.Object, 1)\n", "func (c *_cache) List() ([]metav1.Object, error) {\n	if len(c.items) >= 0 {\n		return c.doList(), nil\n	}\n	resultch := make(chan []metav1.Object, 1)\n", ['C15']),
 'M15-list-returns-shared-slice': ('cache.go', "	result := make([]metav1.Object, 0, len(c.items))\n	for _, obj := range c.items {", "	if c.listbuf == nil {\n		c.listbuf = map[int][]metav1.Object{}\n	}\n	result := c.listbuf[len(c.items)][:0]\n	defer func() { c.listbuf[len(c.items)] = result }()\n	for _, obj := range c.items {", ['C15']),
 'M23-join-ignores-source-delete': ('join/generated_service_pod.go', "		OnDelete(update).\n", "", ['C09']),
 'M24-join-monitor-not-closed': ('join/generated_rs_pod.go', "		monitor.Close()\n", "", ['C09']),
 'M25-join-filter-from-event-only': ('join/generated_deployment_pod.go', "		dst.Refilter(filterFn(objs...))\n	}\n\n	handler", "		dst.Refilter(filterFn(objs[:len(objs)/2+len(objs)%2]...))\n	}\n\n	handler", ['C09']),
 'M26-one-typed-pkg-drops-deletes': ('types/job/generated.go', "		evt, err := wrapEvent(pevt)\n		if err != nil {", "		evt, err := wrapEvent(pevt)\n		if err != nil || pevt.Type() == kcache.EventTypeDelete {", ['C20']),
 'M27-one-typed-pkg-filterclone-wrong-parent': ('types/node/generated.go', "func (c *filterController) Refilter(f filter.Filter) error {\n	return c.filterParent.Refilter(f)", "func (c *filterController) Refilter(f filter.Filter) error {\n	return nil", ['C20']),
 'M28-list-fastpath-reads-len-unsynchronised': ('cache.go', "func (c *_cache) List() ([]metav1.Object, error) {\n	resultch := make(chan []metav1.Object, 1)\n", "func (c *_cache) List() ([]metav1.Object, error) {\n	if len(c.items) == 0 {\n		select {\n		case <-c.lc.ShuttingDown():\n			return nil, errors.WithStack(ErrNotRunning)\n		default:\n			return []metav1.Object{}, nil\n		}\n	}\n	resultch := make(chan []metav1.Object, 1)\n", ['C15']),
 'M16-monitor-goroutine-callbacks': ('monitor.go', "				m.handler.OnUpdate(ev.Resource())", "				go m.handler.OnUpdate(ev.Resource())", ['C16']),
 'M17-blocking-subscription': ('subscription.go', "			select {\n			case s.outch <- evt:\n			default:\n				s.log.Warnf(\"event buffer overrun\")\n			}", "			s.outch <- evt", ['C10']),
 'M18-filter-sub-no-version': ('subscription_filter.go', "			case !ready:\n				continue\n			}", "			}", ['C08']),
 'M19-close-closes-parent-publisher': ('publisher.go', "	for len(s.subscriptions) > 0 {", "	for len(s.subscriptions) > 0 && false {", ['C11','C12']),
 'M20-sync-no-delete-missing': ('cache.go', "		if _, ok := set[k]; !ok {", "		if _, ok := set[k]; !ok && len(list) > 0 {", ['C01','C03']),
 'M21-monitor-skip-init-wait': ('monitor.go', "	case <-m.sub.Ready():\n		objs, err := m.sub.Cache().List()", "	default:\n		objs, err := m.sub.Cache().List()", ['C16']),
 'M22-retry-drops-buffered': ('watcher.go', "			retry = nil\n			session.stop()\n			session = newWatchSession(ctx, w.log, w.client, curVersion)", "			retry = nil\n			session.stop()\n			session = newWatchSession(ctx, w.log, w.client, curVersion)\n			outch = make(chan Event, EventBufsiz)", ['C04']),
}
def run(cmd, **kw):
    return subprocess.run(cmd, shell=True, capture_output=True, text=True, **kw)
def apply(name):
    f, old, new, checks = M[name]
    p=os.path.join(R,f); s=open(p).read()
    if old not in s:
        print("  !! pattern not found for", name); return None
    open(p,'w').write(s.replace(old,new,1))
    b=run("cd /repo && GOFLAGS=-mod=mod GOPROXY=off GOSUMDB=off go build ./... && go vet -tags verif . 2>&1 | grep -v '^#' | head -3")
    if b.returncode!=0 or 'cannot' in b.stdout+b.stderr:
        print("  !! does not build:", (b.stdout+b.stderr)[:300]); revert(); return None
    return checks
def revert():
    run("git -C /repo checkout -- .")
def main():
    names = list(M) if sys.argv[1]=='all' else [sys.argv[1]]
    for name in names:
        checks = apply(name)
        if checks is None: continue
        if len(sys.argv)>2: checks=sys.argv[2:]
        try:
            if os.environ.get('MUT_TESTS'):
                t=run("cd /repo && GOFLAGS=-mod=mod GOPROXY=off GOSUMDB=off go test -vet=off -count=1 ./... 2>&1 | grep -v '^ok\\|no test files' | head -5")
                print("  repo tests:", "pass" if not t.stdout.strip() else "FAIL "+t.stdout[:200])
            for c in checks:
                r=run("cd /verif && ./check %s --budget 25 2>&1 | grep -E '^(VIOLATION|KNOWN|check |violation class|check: INFRA)' | head -8" % c)
                out=r.stdout.strip()
                caught = 'VIOLATION' in out
                print("%-36s %s: %s" % (name, c, "CAUGHT" if caught else "missed"))
                for l in out.splitlines():
                    if l.startswith('violation class') or 'INFRA' in l: print("      ", l)
        finally:
            revert()
    run("rm -f /verif/replays/*.json")
main()
