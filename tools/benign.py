#!/usr/bin/env python3
"""No-false-alarm probe: behaviour-preserving edits of /repo (reworded log
messages, a different retry delay, a different buffer size, renamed local
goroutine entry points) must leave every check silent."""
import subprocess, sys, os
R='/repo'
B = {
 'B1-reword-overflow-logs': [('subscription.go','"event buffer overrun"','"subscriber is slow; dropping event"'),('subscription_filter.go','"event buffer overrun"','"filtered subscriber is slow; dropping"'),('watcher.go','"output buffer full"','"watch backlog exceeded"'),('watch_session.go','"output buffer full; event missed."','"session backlog exceeded"')],
 'B2-retry-delay-3s': [('watcher.go','watchRetryDelay = time.Second','watchRetryDelay = 3 * time.Second')],
 'B3-bufsiz-64': [('subscription.go','EventBufsiz = 100','EventBufsiz = 64')],
 'B4-extra-yielding-logs': [('controller.go','			c.log.Debugf("update event: %v", evt)','			c.log.Debugf("update event: %v", evt)\n			c.log.Debugf("about to update cache")')],
}
def run(cmd): return subprocess.run(cmd, shell=True, capture_output=True, text=True)
checks = sys.argv[2:] or "C03 C04 C05 C06 C10 C11 C12 C14 C16 C20".split()
names = list(B) if sys.argv[1]=='all' else [sys.argv[1]]
for name in names:
    ok=True
    for f,a,b in B[name]:
        p=os.path.join(R,f); s=open(p).read()
        if a not in s: print("  !! pattern missing", name, f); ok=False; continue
        open(p,'w').write(s.replace(a,b))
    try:
        r=run("cd /repo && GOFLAGS=-mod=mod GOPROXY=off GOSUMDB=off go build ./... && go test -vet=off -count=1 . 2>&1 | tail -1")
        print(name, "repo:", r.stdout.strip()[:60])
        for c in checks:
            r=run("cd /verif && ./check %s --budget 20 2>&1 | grep -E '^(VIOLATION|violation class|check: INFRA)' | head -4" % c)
            print("  %-4s %s" % (c, "ALARM: "+r.stdout.strip().replace("\n"," | ") if r.stdout.strip() else "silent"))
    finally:
        run("git -C /repo checkout -- .")
run("find /verif/replays -name '*.json' -delete")
