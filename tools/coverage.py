#!/usr/bin/env python3
"""Union of select-case coverage over all properties: which select cases / channel
operations of the instrumented library never fire in any check (reach probe)."""
import json, subprocess, os, sys, glob, tempfile
B = sorted(glob.glob('/tmp/kcverif/build-*'), key=os.path.getmtime)
assert B, "run a check first"
props = "C01 C03 C04 C05 C06 C07 C08 C09 C10 C11 C12 C13 C14 C16 C20".split()
N = int(sys.argv[1]) if len(sys.argv) > 1 else 600
hits = {}
sites = None
for b in reversed(B):
    if os.path.exists(b + '/sites.txt'):
        sites = [l.split()[0] + " " + l.split()[1] for l in open(b + '/sites.txt') if l.strip()]
        worker = b + '/worker'
        break
d = tempfile.mkdtemp()
for p in props:
    subprocess.run([worker, '-prop', p, '-seed', '3', '-from', '0', '-to', str(N), '-out', d + '/s.json', '-maxfail', '100000'], capture_output=True)
    st = json.load(open(d + '/s.json'))
    for k, v in st['case_hits'].items():
        hits.setdefault(k, {})[p] = v
never = [s for s in sites if s.split()[0] not in hits]
print("select cases / channel ops in the instrumented library: %d, fired in at least one check: %d" % (len(sites), len(sites) - len(never)))
for s in never:
    print("  never:", s)
